#!/bin/bash
# seedsave.sh <ID> <round> <worktree> "<summary>" "<needs>" "<caught_by>" "<confirm-note>" [crate]
ID=$1; R=$2; WT=$3; SUM=$4; NEEDS=$5; CAUGHT=$6; NOTE=$7; CRATE=${8:-maybenot}
D=/verif/seeded/$ID-$R; mkdir -p $D
cp $WT/seed_out/patch.diff $WT/seed_out/demo.rs $D/ && cp $WT/seed_out/notes.md $D/ 2>/dev/null
python3 - "$ID" "$R" "$SUM" "$NEEDS" "$CAUGHT" "$NOTE" "$CRATE" "$WT" > $D/meta.json <<'PY'
import json,sys
i,r,s,n,c,note,crate,wt=sys.argv[1:9]
print(json.dumps({"breaks":i,"round":int(r),"summary":s,"needs":n,"caught_by":c,
 "author":"independent sub-agent given only the property text, the ideas already used in earlier rounds, the instruction to make the defect deep, and a scratch worktree",
 "confirmed":["lib/seedtest.sh %s %s %s: suite passes with the patch, demo fails with it and passes without"%(i,wt,crate), note],
 "demo_location":"crates/%s/tests/"%crate},indent=1))
PY
ls $D
