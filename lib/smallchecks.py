"""Checks built on the small specifications: C06 (Sampling), and later
C12 / C13 / C20 / C11."""
import json
import os
import time

import vlib
from vlib import ToolError, log


def simple_tv(module, trace, wd, name, timeout=900):
    """Single-process trace validation for specs that print TV|DONE| with a `bad` set."""
    cfg = vlib.tlc_cfg("TSpec", {})
    cfg = cfg.replace("CONSTANTS\n", "")
    r = vlib.run_tlc(module, cfg, wd, name, workers=1, timeout=timeout,
                     env=dict(TRACE=trace, JAVA_TOOL_OPTIONS="-Xss1g -Xmx4g"))
    done = [json.loads(p) for p in vlib.tlc_strings(r["out"], "TV|DONE|")]
    if not done:
        raise ToolError("trace validation did not finish: %s (%s)" % (r["out"], r["error"]))
    return done[0], r


def check_c06(prop, tier, seed):
    t0 = time.time()
    wd = vlib.workdir("%s-%s" % (prop, tier))
    vlib.build_harness()
    R, maxlen = (16, 3) if tier == "quick" else (32, 3)
    cfg = vlib.tlc_cfg("Spec", {"R": R, "MaxLen": maxlen, "Targets": "{0, 1, 100, 101}"},
                       ["ExactShare", "Residual", "Contiguous", "Certain", "Never"])
    mc = vlib.run_tlc("Sampling", cfg, wd, "mc", workers=8, timeout=1500)
    log("[C06] MC Sampling R=%d MaxLen=%d: %d vectors (initial states), %.1fs%s" % (
        R, maxlen, mc["distinct"], mc["wall"], " VIOLATED " + mc["violated"] if mc["violated"] else ""))
    if mc["error"] or mc["violated"] or mc["distinct"] == 0:
        raise ToolError("model checking of Sampling failed: %s" % mc["out"])
    recs = os.path.join(wd, "recs.ndjson")
    extra = 6 if tier == "quick" else 40
    pr = vlib.run_bin("sampling_enum", ["--out", recs, "--extra", extra, "--seed", seed])
    if pr.returncode != 0:
        raise ToolError("sampling_enum failed: %s" % pr.stdout[-2000:])
    s = json.loads(pr.stdout.strip().splitlines()[-1])
    done, tv = simple_tv("SamplingTrace", recs, wd, "tv")
    rows = [json.loads(l) for l in open(recs)]
    log("[C06] enumerated %d vectors x %d draws on the real code; records rejected by the spec: %s" % (
        s["vectors"], s["draws_each"], done["bad"]))
    bad = [r for r in rows if r["id"] in done["bad"]]
    coverage = dict(
        states=mc["distinct"], transitions=mc["states"],
        traces_validated_against_impl=len(rows),
        evaluations=len(rows) * s["draws_each"], distinct_nontrivial=sum(1 for r in rows if r["n"] > 0),
        rule="each validated probability vector x every one of the 2^23 values of the draw; non-trivial = non-empty vector",
        samples=[dict(p=r["p"], targets=r["targets"], count=r["count"], none=r["none"]) for r in rows[:6]],
        exhaustive=True,
        model_checking=dict(R=R, MaxLen=maxlen, vectors=mc["distinct"]))
    vlib.write_evidence(prop, tier, seed, "model_checking", coverage, time.time() - t0, len(bad), [
        "the uniform draw is rand 0.8's UniformFloat<f32>::sample_single on one u32 word (top 23 bits)",
        "non-dyadic vectors are judged up to one unit of the draw per f32 addition",
        "the dispatch of the sampled target (END / SIGNAL / regular) is bound by C05's scripted draws"])
    if bad:
        path = vlib.write_replay(prop, dict(property=prop, records=bad))
        print("VIOLATION property=%s replay=%s" % (prop, path), flush=True)
        return 1
    log("[C06] held on everything explored (%.1fs)" % (time.time() - t0))
    return 0
