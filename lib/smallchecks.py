"""Checks built on the small specifications: C06 (Sampling), and later
C12 / C13 / C20 / C11."""
import json
import os
import time

import vlib
from vlib import ToolError, log


def simple_tv(module, trace, wd, name, timeout=900):
    """Single-process trace validation for specs that print TV|DONE| with a `bad` set."""
    cfg = vlib.tlc_cfg("TSpec", {})
    cfg = cfg.replace("CONSTANTS\n", "")
    r = vlib.run_tlc(module, cfg, wd, name, workers=1, timeout=timeout,
                     env=dict(TRACE=trace, JAVA_TOOL_OPTIONS="-Xss1g -Xmx4g"))
    done = [json.loads(p) for p in vlib.tlc_strings(r["out"], "TV|DONE|")]
    if not done:
        raise ToolError("trace validation did not finish: %s (%s)" % (r["out"], r["error"]))
    return done[0], r


def check_c06(prop, tier, seed):
    t0 = time.time()
    wd = vlib.workdir("%s-%s" % (prop, tier))
    vlib.build_harness()
    # (4 R F)^3 must stay below TLC's 10^6 set limit; F > 1: weights finer than the draw
    runs = [(16, 1, 3), (6, 4, 3)] if tier == "quick" else [(24, 1, 3), (8, 3, 3), (4, 6, 3)]
    invs = ["ExactShare", "WholeShare", "Residual", "Contiguous", "DrawZero", "Certain", "Never"]
    mc = None
    for (R, F, maxlen) in runs:
        cfg = vlib.tlc_cfg("Spec", {"R": R, "F": F, "MaxLen": maxlen, "Targets": "{0, 1, 100, 101}"}, invs)
        m1 = vlib.run_tlc("Sampling", cfg, wd, "mc%d_%d" % (R, F), workers=8, timeout=1500)
        log("[C06] MC Sampling R=%d F=%d MaxLen=%d: %d vectors (initial states), %.1fs%s" % (
            R, F, maxlen, m1["distinct"], m1["wall"], " VIOLATED " + m1["violated"] if m1["violated"] else ""))
        if m1["error"] or m1["violated"] or m1["distinct"] == 0:
            raise ToolError("model checking of Sampling failed: %s" % m1["out"])
        if mc is None:
            mc = m1
        else:
            mc["distinct"] += m1["distinct"]
            mc["states"] += m1["states"]
    R, maxlen = runs[0][0], runs[0][2]
    recs = os.path.join(wd, "recs.ndjson")
    extra = 6 if tier == "quick" else 40
    pr = vlib.run_bin("sampling_enum", ["--out", recs, "--extra", extra, "--seed", seed])
    if pr.returncode != 0:
        raise ToolError("sampling_enum failed: %s" % pr.stdout[-2000:])
    s = json.loads(pr.stdout.strip().splitlines()[-1])
    done, tv = simple_tv("SamplingTrace", recs, wd, "tv")
    rows = [json.loads(l) for l in open(recs)]
    log("[C06] enumerated %d vectors x %d draws on the real code; records rejected by the spec: %s" % (
        s["vectors"], s["draws_each"], done["bad"]))
    bad = [r for r in rows if r["id"] in done["bad"]]
    coverage = dict(
        states=mc["distinct"], transitions=mc["states"],
        traces_validated_against_impl=len(rows),
        evaluations=len(rows) * s["draws_each"], distinct_nontrivial=sum(1 for r in rows if r["n"] > 0),
        rule="each validated probability vector x every one of the 2^23 values of the draw; non-trivial = non-empty vector",
        samples=[dict(p=r["p"], targets=r["targets"], count=r["count"], none=r["none"]) for r in rows[:6]],
        exhaustive=True,
        model_checking=dict(R=R, MaxLen=maxlen, vectors=mc["distinct"]))
    vlib.write_evidence(prop, tier, seed, "model_checking", coverage, time.time() - t0, len(bad), [
        "the uniform draw is rand 0.8's UniformFloat<f32>::sample_single on one u32 word (top 23 bits)",
        "non-dyadic vectors are judged up to one unit of the draw per f32 addition",
        "the dispatch of the sampled target (END / SIGNAL / regular) is bound by C05's scripted draws"])
    if bad:
        path = vlib.write_replay(prop, dict(property=prop, records=bad))
        print("VIOLATION property=%s replay=%s" % (prop, path), flush=True)
        return 1
    log("[C06] held on everything explored (%.1fs)" % (time.time() - t0))
    return 0


def generic_small(prop, tier, seed, mc_module, mc_consts, mc_invs, driver, driver_args, tv_module, tv_consts,
                  verdict_names, rule, assumptions, level="model_checking", nontrivial_key=None, tv_shards=8,
                  mc_extra="", mc_negative=None):
    """MC of a small spec + a driver on the real code + trace validation of its records."""
    t0 = time.time()
    wd = vlib.workdir("%s-%s" % (prop, tier))
    vlib.build_harness()
    mc = None
    if mc_module:
        cfg = vlib.tlc_cfg("Spec", mc_consts, mc_invs, extra=mc_extra)
        mc = vlib.run_tlc(mc_module, cfg, wd, "mc", workers=8, timeout=1500)
        log("[%s] MC %s %s: %d states, %d distinct, %.1fs%s" % (
            prop, mc_module, mc_consts, mc["states"], mc["distinct"], mc["wall"],
            " VIOLATED " + mc["violated"] if mc["violated"] else ""))
        if mc["error"] or mc["violated"] or mc["distinct"] == 0:
            raise ToolError("model checking of %s failed: %s" % (mc_module, mc["out"]))
        if mc_negative:
            # vacuity guard: the historic defect switched back on in the model must violate the named invariant
            nconsts, ninv = mc_negative
            neg = vlib.run_tlc(mc_module, vlib.tlc_cfg("Spec", nconsts, mc_invs), wd, "mcneg", workers=2, timeout=600)
            log("[%s] MC %s %s (historic variant): %s" % (prop, mc_module, nconsts, neg["violated"] or "no violation"))
            if neg["violated"] != ninv:
                raise ToolError("the historic variant %s should violate %s, TLC reported %s" % (nconsts, ninv, neg["violated"]))
    recs = os.path.join(wd, "recs.ndjson")
    pr = vlib.run_bin(driver, driver_args + ["--seed", seed, "--out", recs], timeout=3000)
    if pr.returncode != 0:
        raise ToolError("%s failed: %s" % (driver, pr.stdout[-2000:]))
    summary = json.loads(pr.stdout.strip().splitlines()[-1])
    cfg = vlib.tlc_cfg("TSpec", tv_consts)
    if not tv_consts:
        cfg = cfg.replace("CONSTANTS\n", "")
    tv = vlib.trace_validate(tv_module, cfg, recs, wd, "tv", shards=tv_shards)
    if tv["incomplete"]:
        raise ToolError("trace validation did not finish: %s" % tv["incomplete"])
    log("[%s] %s: %s; %d records validated by %s in %.1fs" % (prop, driver, summary, tv["lines"], tv_module, tv["wall"]))
    bad = sorted({v["id"] for v in tv["verdicts"] if v["name"] in verdict_names})
    import fwcheck
    samples = []
    with open(recs) as f:
        for i, line in enumerate(f):
            if 2 <= i < 6:
                samples.append(json.loads(line))
    nscen = tv["scenarios"]
    coverage = dict(
        states=mc["distinct"] if mc else 0, transitions=mc["states"] if mc else 0,
        traces_validated_against_impl=nscen,
        evaluations=max(tv["lines"], 1), distinct_nontrivial=summary.get(nontrivial_key, nscen) if nontrivial_key else nscen,
        rule=rule, samples=samples or ["(none)"], exhaustive=False, driver_summary=summary)
    vlib.write_evidence(prop, tier, seed, level, coverage, time.time() - t0, len(bad), assumptions)
    known = [k for k in vlib.load_known() if k.get("property") == prop and k.get("status") == "known"]
    for k in known:
        log("KNOWN-FINDING: property=%s %s" % (prop, k.get("description")))
    if bad:
        path = vlib.write_replay(prop, dict(property=prop, scenario=bad[0], verdicts=sorted(verdict_names),
                                            actual=fwcheck.scenario_lines(recs, bad[0])))
        log("[%s] %d violating scenario(s), first %s" % (prop, len(bad), bad[0]))
        print("VIOLATION property=%s replay=%s" % (prop, path), flush=True)
        return 1
    log("[%s] held on everything explored (%.1fs)" % (prop, time.time() - t0))
    return 0


def check_c20(prop, tier, seed):
    q = tier == "quick"
    return generic_small(
        prop, tier, seed,
        "Ffi", {"MaxOps": 3 if q else 4, "MaxMachines": 2}, ["BoundedWrite", "NoLeak", "ErrorsWriteNothing"],
        "ffi_driver", ["--scenarios", 300 if q else 3000, "--calls", 30 if q else 60],
        "FfiTrace", {}, {"C20"},
        rule="scenario = one maybenot_start (12 argument classes) + num_machines + K maybenot_on_events (random batches over the 10 event types, ids incl. usize::MAX and unknown, 4/25 with one NULL argument) + maybenot_stop, next to a Rust Framework over the same machines; non-trivial = actions written",
        assumptions=["machines are deterministic (probability-1 transitions, constant distributions, unlimited budgets, no fractions) so the API's OS-seeded RNG and Instant::now() cannot matter",
                     "the machine-string pointer and the pointer given to maybenot_stop are valid (documented safety contract)",
                     "heap accounting through a counting global allocator in the driver process"],
        nontrivial_key="actions")


def check_c12(prop, tier, seed):
    t0 = time.time()
    wd = vlib.workdir("%s-%s" % (prop, tier))
    vlib.build_harness()
    slices = ["frac", "vec1", "vec2-quick", "dist-quick"] if tier == "quick" else ["frac", "vec1", "vec2", "dist"]
    states = trans = cases_total = recs_total = accepted = 0
    bad_all = []
    samples = []
    for sl in slices:
        cfg = vlib.tlc_cfg("Spec", {"Slice": '"%s"' % sl}, ["Emit", "Sane"])
        mc = vlib.run_tlc("Validation", cfg, wd, "mc_" + sl, workers=8, timeout=1500)
        if mc["error"] or mc["violated"] or mc["distinct"] == 0:
            raise ToolError("Validation.tla failed on slice %s (%s): %s" % (sl, mc["violated"] or mc["error"], mc["out"]))
        cases = os.path.join(wd, "cases_%s.ndjson" % sl)
        n = 0
        with open(cases, "w") as f:
            for payload in vlib.tlc_strings(mc["out"], "CASE|"):
                f.write(payload + "\n")
                n += 1
        recs = os.path.join(wd, "recs_%s.ndjson" % sl)
        pr = vlib.run_bin("validate_cases", ["--cases", cases, "--out", recs], timeout=3000)
        if pr.returncode != 0:
            raise ToolError("validate_cases failed: %s" % pr.stdout[-2000:])
        s = json.loads(pr.stdout.strip().splitlines()[-1])
        cfg = vlib.tlc_cfg("TSpec", {"Slice": '"%s"' % sl})
        tv = vlib.trace_validate("ValidationTrace", cfg, recs, wd, "tv_" + sl, shards=12)
        if tv["incomplete"]:
            raise ToolError("trace validation did not finish: %s" % tv["incomplete"])
        bad = sorted({v["id"] for v in tv["verdicts"]})
        log("[C12] slice %s: %d abstract cases enumerated by TLC, %d concretised machines, %d accepted by validation; groups with a rejected record: %s" % (
            sl, n, s["records"], s["accepted"], bad[:5]))
        states += mc["distinct"]
        trans += mc["states"]
        cases_total += n
        recs_total += s["records"]
        accepted += s["accepted"]
        if bad:
            import fwcheck
            first = [ln for ln in fwcheck.scenario_lines(recs, bad[0]) if ln.get("k") == "case"]
            bad_all.append(dict(slice=sl, group=bad[0], records=first[:600]))
        with open(recs) as f:
            for i, line in enumerate(f):
                if i in (1, 50):
                    r = json.loads(line)
                    if r.get("k") == "case":
                        samples.append({k: r[k] for k in ("case", "variant", "validate_ok", "fw_ok")})
    # find the exact failing records for the replay file (re-judged in python only to pick which to show)
    coverage = dict(states=states, transitions=trans, traces_validated_against_impl=recs_total,
                    evaluations=recs_total, distinct_nontrivial=accepted,
                    rule="abstract cases = the full product of each slice of Validation.tla (fractions x states, transition vectors, distribution tables x positions), each concretised with 3 bit-pattern variants; non-trivial = accepted by Machine::validate (the antecedent of the property)",
                    samples=samples or ["(none)"], exhaustive=True, slices=slices, abstract_cases=cases_total)
    vlib.write_evidence(prop, tier, seed, "model_checking", coverage, time.time() - t0, len(bad_all), [
        "value classes stand for the listed bit patterns only (3 variants per class)",
        "the documented parameter domains are those of maybenot dist.rs and rand_distr 0.4.3 constructors (DESIGN.md section 9)",
        "per-event sums are judged exactly in units of 2^-24; subnormal probabilities count as 0 in the sum"])
    if bad_all:
        path = vlib.write_replay(prop, dict(property=prop, failing=bad_all[0]))
        print("VIOLATION property=%s replay=%s" % (prop, path), flush=True)
        return 1
    log("[C12] held on everything explored (%.1fs)" % (time.time() - t0))
    return 0


def check_c13(prop, tier, seed):
    t0 = time.time()
    wd = vlib.workdir("%s-%s" % (prop, tier))
    vlib.build_harness()
    cfg = vlib.tlc_cfg("Spec", {}, ["SampleInRange", "TimeoutBounded", "LimitIsU64", "CounterIsU64"]).replace("CONSTANTS\n", "")
    mc = vlib.run_tlc("DistClamp", cfg, wd, "mc", workers=4, timeout=600)
    log("[C13] MC DistClamp: %d class pairs (raw+start, max), %.1fs%s" % (
        mc["distinct"], mc["wall"], " VIOLATED " + mc["violated"] if mc["violated"] else ""))
    if mc["error"] or mc["violated"] or mc["distinct"] == 0:
        raise ToolError("model checking of DistClamp failed: %s" % mc["out"])
    recs = os.path.join(wd, "recs.ndjson")
    streams = 6 if tier == "quick" else 40
    pr = vlib.run_bin("dist_cases", ["--seed", seed, "--streams", streams, "--out", recs], timeout=3000)
    if pr.returncode != 0:
        raise ToolError("dist_cases failed: %s" % pr.stdout[-2000:])
    s = json.loads(pr.stdout.strip().splitlines()[-1])
    if s.get("aborted"):
        raise ToolError("dist_cases gave up after %d samplers did not return: %s" % (s["hangs"], recs))
    cfg = vlib.tlc_cfg("TSpec", {}).replace("CONSTANTS\n", "")
    tv = vlib.trace_validate("DistTrace", cfg, recs, wd, "tv", shards=8)
    if tv["incomplete"]:
        raise ToolError("trace validation did not finish: %s" % tv["incomplete"])
    known = [k for k in vlib.load_known() if k.get("property") == prop and k.get("status") == "known"]
    known_sigs = {k["signature"] for k in known}
    seen = set()
    bad = []
    for v in tv["verdicts"]:
        if v["sig"] in known_sigs:
            seen.add(v["sig"])
        else:
            bad.append(v)
    log("[C13] dist_cases: %s; %d records judged by DistTrace in %.1fs" % (s, tv["lines"], tv["wall"]))
    for k in known:
        log("KNOWN-FINDING: property=%s %s [signature %s, %s in this run]" % (
            prop, k["description"], k["signature"], "seen" if k["signature"] in seen else "not seen"))
    samples = []
    with open(recs) as f:
        for i, line in enumerate(f):
            r = json.loads(line)
            if r.get("k") == "sample" and len(samples) < 4 and i % 97 == 0:
                samples.append({k: r[k] for k in ("desc", "cls", "words")})
            if r.get("k") == "clamp" and len(samples) < 2:
                samples.append({k: r[k] for k in ("x", "mx", "sample", "timeout", "limit", "counter")})
    coverage = dict(states=mc["distinct"], transitions=mc["states"],
                    traces_validated_against_impl=s["clamp_records"] + s["sample_records"],
                    evaluations=s["clamp_records"] + s["sample_records"], distinct_nontrivial=s["validated_dists"],
                    rule="clamp: every class pair (raw+start, max) x two realisations on the real code; sample: 11 families x parameter corners x 7 start/max corners admitted by validation x streams (prefix 0/1/2/4/8 of an extreme word, then Xoshiro); non-trivial = distinct validated distributions",
                    samples=samples or ["(none)"], exhaustive=False, driver_summary=s)
    vlib.write_evidence(prop, tier, seed, "model_checking", coverage, time.time() - t0, len(bad), [
        "termination and speed of rand_distr's samplers are observed under a 3 s watchdog, not modelled",
        "+inf is accepted as 'at least 0' when no maximum is set (DESIGN.md section 9)"])
    if bad:
        import fwcheck
        v = bad[0]
        path = vlib.write_replay(prop, dict(property=prop, scenario=v["id"], signature=v["sig"],
                                            actual=fwcheck.scenario_lines(recs, v["id"])))
        log("[C13] %d records rejected; first group %s (%s)" % (len(bad), v["id"], v["sig"]))
        print("VIOLATION property=%s replay=%s" % (prop, path), flush=True)
        return 1
    log("[C13] held on everything explored (%.1fs)" % (time.time() - t0))
    return 0


def check_c11(prop, tier, seed):
    q = tier == "quick"
    return generic_small(
        prop, tier, seed,
        "Codec", {"MAX": 4 if q else 7, "K": 8, "VariantId": '"cur"'},
        ["TypeOK", "NoOverrun", "OkMeansValidated", "MemoryBounded", "RoundTrip", "BombRejected", "V1Exact"],
        "codec_cases", ["--machines", 200 if q else 2000, "--bomb-mib", 512 if q else 2048],
        "CodecTrace", {}, {"C11"},
        rule="round trips of generated valid machines (random, 1..10^4 states up to the size limit, extreme numeric fields); hostile strings: truncations, bit flips, replacements, wrong versions, non-ASCII, structure-level corruption of the bincode bytes, random strings, zlib streams inflating to 2 MiB - 1 GiB, for both parsers; non-trivial = round trips",
        assumptions=["byte-level fidelity of bincode / zlib / base64 is not modelled: the spec contributes the pipeline contract, the memory budget and the judgement of every record (DESIGN.md section 8)",
                     "peak heap is measured by a counting global allocator inside the driver; the budget is 64 MiB + 2 x input length",
                     "machines whose bincode encoding exceeds MAX_DECOMPRESSED_SIZE are outside the statement and skipped (counted)"],
        level="exploration", nontrivial_key="round_trips", mc_extra="PROPERTY Terminates",
        mc_negative=({"MAX": 4, "K": 8, "VariantId": '"F9"'}, "RoundTrip"))
