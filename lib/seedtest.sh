#!/bin/bash
# seedtest.sh <ID> <worktree> [crate]   confirm a seeded change in its scratch worktree:
#   with the patch: existing suite passes, demo fails; without: demo passes
ID=$1; WT=$2; CRATE=${3:-maybenot}
set -u
cd $WT || exit 2
git checkout -q -- . ; rm -rf crates/$CRATE/tests/seed_demo.rs
git apply seed_out/patch.diff || { echo "patch does not apply"; exit 2; }
mkdir -p crates/$CRATE/tests
echo "--- with patch: existing suite"
cargo test --workspace --offline 2>&1 | grep -E "^test result|FAILED|failed" | sort | uniq -c | head -5
cp seed_out/demo.rs crates/$CRATE/tests/seed_demo.rs
echo "--- with patch: demo (expect failure)"
cargo test -p $CRATE --test seed_demo --offline 2>&1 | grep -E "^test result|panicked" | head -5
git apply -R seed_out/patch.diff
echo "--- without patch: demo (expect pass)"
cargo test -p $CRATE --test seed_demo --offline 2>&1 | grep -E "^test result" | head -3
rm -f crates/$CRATE/tests/seed_demo.rs; rmdir crates/$CRATE/tests 2>/dev/null
git status --short | head -5
