#!/bin/bash
# seedrun_alt.sh <patch> <check-id...>  like seedrun.sh, on a scratch worktree of the repository
# (/tmp/repo-alt at /repo's HEAD) with its own work directory, so it can run next to checks of /repo
PATCH=$1; shift
ALT=${ALT:-/tmp/repo-alt}
[ -d $ALT ] || git -C /repo worktree add -q --detach $ALT HEAD
git -C $ALT checkout -q --detach $(git -C /repo rev-parse HEAD) 2>/dev/null
git -C $ALT checkout -- .
git -C $ALT apply $PATCH || { echo "patch does not apply"; exit 2; }
for id in "$@"; do
  VERIF_REPO=$ALT VERIF_WORK=/verif/work/$(basename $ALT) /verif/check $id ${TIER:+--tier $TIER} 2>&1 | grep -E "VIOLATION|held on|TOOL-ERROR|violating|failing|GEN|RAND" | cut -c1-260
done
git -C $ALT checkout -- .
