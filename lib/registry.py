"""Property id -> check function, with the per-tier plans (constants of the
configurations are recorded in the evidence files)."""
import fwcheck


def C(family, alphabet, calls, batch, steps="one", invs=(), timeout=1500, simulate=0):
    return dict(family=family, alphabet=alphabet, calls=calls, batch=batch, steps=steps,
                invs=list(invs), timeout=timeout, simulate=simulate)


FW_ASSUME = [
    "TLC explores the specification exhaustively only within the stated constants (families, calls, batch, clock steps)",
    "the harness's scripted RNG and virtual clock (integer micro-seconds, one correctly rounded division) stand in for rand and std::time",
    "hook lines are recorded by add-only instrumentation behind cargo feature `verif`",
    "u64 values between 2^30 and 2^64-2^30 and times above 2^20 us are outside the encoding used for trace validation",
]

RULE = ("behaviours: every maximal behaviour of the TLC configuration (all draw outcomes), replayed on the real code; "
        "random: seeded machine sets x histories; distinct = distinct line sequences; non-trivial = %s")

FW_PLANS = {
    "C01": dict(
        verdicts={"C01", "PANIC"},
        rule=RULE % "at least one call with a non-empty batch",
        quick=dict(
            mc=[C("core-quick", "core", 2, 2, "mixed", ["Inv_C01"])],
            gen=[C("core-quick", "core", 2, 1, "mixed"), C("end-quick", "end", 2, 2, "one")],
            rand=dict(scenarios=300, calls=30, flags=["--big-ids"])),
        thorough=dict(
            workers=14,
            mc=[C("core-thorough", "core", 2, 2, "mixed", ["Inv_C01"]),
                C("core-quick", "full", 2, 1, "wide", ["Inv_C01"])],
            gen=[C("core-quick", "core", 2, 2, "one"), C("core-quick", "full", 2, 1, "mixed")],
            rand=dict(scenarios=3000, calls=60, flags=["--big-ids"]))),
    "C02": dict(
        verdicts={"C02"},
        rule=RULE % "a PaddingSent report or a returned SendPadding",
        quick=dict(
            mc=[C("pad-quick", "pad", 5, 1, "one", ["Inv_C02"]), C("pad-reenter", "pad", 4, 1, "one", ["Inv_C02"])],
            gen=[C("pad-quick", "pad", 3, 1, "one"), C("pad-reenter", "pad", 4, 1, "one"),
                 C("pad-quick", "pad", 10, 1, "one", ["Inv_C02"], simulate=200)],
            rand=dict(scenarios=300, calls=30)),
        thorough=dict(
            workers=14,
            mc=[C("pad-quick", "pad", 6, 1, "one", ["Inv_C02"]),
                C("pad-thorough", "pad", 4, 1, "one", ["Inv_C02"]), C("pad-reenter", "pad", 5, 1, "one", ["Inv_C02"])],
            gen=[C("pad-quick", "pad", 4, 1, "one"), C("pad-reenter", "pad", 5, 1, "one"),
                 C("pad-thorough", "pad", 14, 1, "one", ["Inv_C02"], simulate=800)],
            rand=dict(scenarios=3000, calls=60))),
    "C03": dict(
        verdicts={"C03"},
        rule=RULE % "a BlockingBegin/BlockingEnd report or a returned BlockOutgoing",
        quick=dict(
            mc=[C("block-quick", "block", 5, 1, "mixed", ["Inv_C03"]), C("block-reenter", "block", 3, 1, "mixed", ["Inv_C03"])],
            gen=[C("block-quick", "block", 3, 1, "mixed"), C("block-reenter", "block", 3, 1, "mixed"),
                 C("block-quick", "block", 10, 1, "mixed", ["Inv_C03"], simulate=200)],
            rand=dict(scenarios=300, calls=30)),
        thorough=dict(
            workers=14,
            mc=[C("block-quick", "block", 6, 1, "wide", ["Inv_C03"]),
                C("block-thorough", "block", 4, 1, "mixed", ["Inv_C03"]), C("block-reenter", "block", 4, 1, "mixed", ["Inv_C03"])],
            gen=[C("block-quick", "block", 4, 1, "mixed"), C("block-reenter", "block", 4, 1, "one"),
                 C("block-thorough", "block", 14, 1, "wide", ["Inv_C03"], simulate=800)],
            rand=dict(scenarios=3000, calls=60))),
    "C04": dict(
        verdicts={"C04"},
        rule=RULE % "a call that returns at least one action",
        quick=dict(
            mc=[C("core-quick", "core", 2, 2, "mixed", ["Inv_C04"]), C("end-quick", "end", 3, 2, "one", ["Inv_C04"])],
            gen=[C("core-quick", "core", 2, 1, "mixed"), C("end-quick", "end", 2, 2, "one")],
            rand=dict(scenarios=300, calls=30)),
        thorough=dict(
            workers=14,
            mc=[C("core-thorough", "core", 2, 2, "mixed", ["Inv_C04"]),
                C("limit-quick", "limit", 3, 2, "one", ["Inv_C04"])],
            gen=[C("core-quick", "core", 2, 2, "one")],
            rand=dict(scenarios=3000, calls=60))),
    "C05": dict(
        verdicts={"C05", "PANIC"},
        rule=RULE % "at least one sampled transition",
        quick=dict(
            mc=[C("core-quick", "core", 2, 2, "mixed", [])],
            gen=[C("core-quick", "full", 2, 1, "mixed"), C("ctr-quick", "ctr", 2, 2, "one"),
                 C("ctr-quick", "ctr", 1, 3, "one"), C("sig-trio", "sig", 1, 2, "one"),
                 C("sig-quick", "sig", 2, 1, "one"), C("limit-quick", "limit", 3, 1, "one"),
                 C("limit-duo", "limit", 3, 1, "one"), C("sig-duo", "sig", 2, 2, "one"),
                 C("limit-reenter", "limit", 3, 1, "one"), C("end-quick", "end", 2, 2, "one"),
                 C("core-thorough", "core", 8, 2, "mixed", simulate=60)],
            rand=dict(scenarios=400, calls=30), compose=dict(scenarios=40)),
        thorough=dict(
            workers=14, compose=dict(scenarios=400),
            mc=[C("core-thorough", "core", 2, 2, "mixed", []),
                C("lazy", "lazy", 3, 1, "one", ["Inv_C01", "Inv_C04", "Inv_C07", "Inv_C08", "Inv_C09"], timeout=3000)],
            gen=[C("core-quick", "full", 2, 1, "wide"), C("core-quick", "core", 2, 2, "one"),
                 C("core-thorough", "core", 2, 1, "mixed"),
                 C("lazy", "lazy", 2, 1, "one"), C("end-quick", "end", 2, 2, "one"), C("limit-duo", "limit", 3, 1, "one"),
                 C("sig-duo", "sig", 2, 2, "one"), C("limit-reenter", "limit", 2, 2, "one"),
                 C("ctr-quick", "ctr", 3, 2, "one"), C("sig-quick", "sig", 2, 2, "one"),
                 C("limit-quick", "limit", 4, 1, "one"), C("pad-quick", "pad", 4, 1, "one"),
                 C("block-quick", "block", 4, 1, "mixed"),
                 C("core-thorough", "core", 10, 2, "mixed", simulate=1500),
                 C("ctr-thorough", "ctr", 10, 3, "one", simulate=400),
                 C("sig-thorough", "sig", 8, 2, "one", simulate=400),
                 C("limit-thorough", "limit", 10, 2, "one", simulate=400),
                 C("pad-thorough", "pad", 12, 1, "one", simulate=400),
                 C("block-thorough", "block", 12, 1, "wide", simulate=400)],
            rand=dict(scenarios=5000, calls=60))),
    "C07": dict(
        verdicts={"C07"},
        rule=RULE % "a completion that consumed the state limit (a decrement)",
        quick=dict(
            mc=[C("limit-quick", "limit", 4, 1, "one", ["Inv_C07"]), C("limit-reenter", "limit", 3, 1, "one", ["Inv_C07"])],
            gen=[C("limit-quick", "limit", 3, 1, "one"), C("limit-quick", "limit", 1, 3, "one"),
                 C("limit-reenter", "limit", 3, 1, "one"), C("limit-duo", "limit", 3, 1, "one")],
            rand=dict(scenarios=300, calls=30)),
        thorough=dict(
            workers=14,
            mc=[C("limit-quick", "limit", 3, 2, "one", ["Inv_C07"]),
                C("limit-thorough", "limit", 4, 1, "one", ["Inv_C07"]), C("limit-reenter", "limit", 4, 1, "one", ["Inv_C07"])],
            gen=[C("limit-quick", "limit", 4, 1, "one"), C("limit-reenter", "limit", 2, 2, "one"),
                 C("limit-duo", "limit", 3, 1, "one"),
                 C("limit-thorough", "limit", 12, 2, "one", ["Inv_C07"], simulate=800)],
            rand=dict(scenarios=3000, calls=60))),
    "C08": dict(
        verdicts={"C08"},
        rule=RULE % "a counter update",
        quick=dict(
            mc=[C("ctr-quick", "ctr", 3, 2, "one", ["Inv_C08"]), C("ctr-quick", "ctr", 4, 1, "one", ["Inv_C08"]),
                C("ctr-quick", "ctr", 2, 3, "one", ["Inv_C08"])],
            gen=[C("ctr-quick", "ctr", 2, 2, "one"), C("ctr-quick", "ctr", 1, 3, "one")],
            rand=dict(scenarios=300, calls=30)),
        thorough=dict(
            workers=14,
            mc=[C("ctr-thorough", "ctr", 3, 2, "one", ["Inv_C08"]), C("ctr-thorough", "ctr", 5, 1, "one", ["Inv_C08"])],
            gen=[C("ctr-quick", "ctr", 3, 2, "one"), C("ctr-quick", "ctr", 2, 3, "one"),
                 C("ctr-thorough", "ctr", 12, 3, "one", ["Inv_C08"], simulate=800)],
            rand=dict(scenarios=3000, calls=60))),
    "C09": dict(
        verdicts={"C09"},
        rule=RULE % "a transition to the signal pseudo-state",
        quick=dict(
            mc=[C("sig-quick", "sig", 2, 2, "one", ["Inv_C09"]), C("sig-trio", "sig", 1, 2, "one", ["Inv_C09"])],
            gen=[C("sig-quick", "sig", 2, 1, "one"), C("sig-trio", "sig", 1, 2, "one"), C("sig-duo", "sig", 2, 2, "one")],
            rand=dict(scenarios=300, calls=30)),
        thorough=dict(
            workers=14,
            mc=[C("sig-thorough", "sig", 2, 2, "one", ["Inv_C09"]), C("sig-quick", "sig", 3, 1, "one", ["Inv_C09"])],
            gen=[C("sig-quick", "sig", 2, 2, "one"), C("sig-trio", "sig", 2, 1, "one"),
                 C("sig-thorough", "sig", 10, 2, "one", ["Inv_C09"], simulate=800)],
            rand=dict(scenarios=3000, calls=60))),
}


def fw(prop, tier, seed):
    plan = dict(FW_PLANS[prop])
    plan.setdefault("assumptions", FW_ASSUME)
    return fwcheck.check_fw(prop, tier, seed, plan, plan["verdicts"])


C10_PLAN = dict(
    rule="pairs (X deterministic, Y any) x positions x histories enumerated by TLC, plus random X / 1-3 random neighbours / random positions; every case is run solo and combined on the real code",
    assumptions=FW_ASSUME + ["X is deterministic (probability-1 transitions, constant distributions), never signals and has no transitions on Signal; no framework-wide fractions"],
    quick=dict(
        mc=[dict(pairs="quick", alphabet="small", calls=3, batch=1, steps="mixed"),
            dict(pairs="quick", alphabet="full", calls=2, batch=1, steps="one")],
        gen=[dict(pairs="quick", alphabet="small", calls=2, batch=1, steps="one")],
        rand=dict(cases=400, calls=40)),
    thorough=dict(
        workers=14,
        mc=[dict(pairs="quick", alphabet="small", calls=2, batch=2, steps="mixed"),
            dict(pairs="thorough", alphabet="small", calls=3, batch=1, steps="mixed"),
            dict(pairs="thorough", alphabet="full", calls=2, batch=1, steps="one")],
        gen=[dict(pairs="thorough", alphabet="small", calls=3, batch=1, steps="one")],
        rand=dict(cases=5000, calls=80)))


def c10(prop, tier, seed):
    return fwcheck.check_c10(prop, tier, seed, C10_PLAN)


def c06(prop, tier, seed):
    import smallchecks
    return smallchecks.check_c06(prop, tier, seed)


CHECKS = {p: fw for p in FW_PLANS}
CHECKS["C10"] = c10
CHECKS["C06"] = c06


def c20(prop, tier, seed):
    import smallchecks
    return smallchecks.check_c20(prop, tier, seed)


CHECKS["C20"] = c20


def c12(prop, tier, seed):
    import smallchecks
    return smallchecks.check_c12(prop, tier, seed)


CHECKS["C12"] = c12


def c13(prop, tier, seed):
    import smallchecks
    return smallchecks.check_c13(prop, tier, seed)


CHECKS["C13"] = c13


def c11(prop, tier, seed):
    import smallchecks
    return smallchecks.check_c11(prop, tier, seed)


CHECKS["C11"] = c11


def simc(prop, tier, seed):
    import simcheck
    return simcheck.check_sim(prop, tier, seed)


for _p in ("C14", "C15", "C16", "C17", "C18", "C19"):
    CHECKS[_p] = simc


FW_TEXT = ("TLC checks the property invariant on mechanism || observer exhaustively within small constants; "
           "every behaviour of a smaller configuration is replayed on the real code in lock-step (all hook lines and the "
           "full internal snapshot compared), and seeded random executions of the real code are validated line by line "
           "against the mechanism and the observer; the verdict is the observer invariant on real executions")
FW_NOTE = ("trusted: TLC, the harness's scripted RNG / virtual clock, the add-only hooks; bounded: machine families, "
           "<= 5 calls, batches <= 2, clock steps {0,1,3,-2}; random part is sampling, not exhaustive")

META = {}
for _p, _sec in [("C01", "6/C01"), ("C02", "6/C02"), ("C03", "6/C03"), ("C04", "6/C04"), ("C05", "6/C05"),
                 ("C07", "6/C07"), ("C08", "6/C08"), ("C09", "6/C09")]:
    META[_p] = dict(engine="framework", level="model_checking", text=FW_TEXT, note=FW_NOTE,
                    design_ref="DESIGN.md section " + _sec,
                    technique="TLA+ mechanism+observer spec, TLC exhaustive; TLC-generated behaviours replayed on the code; trace validation of recorded executions")

META["C10"] = dict(
    engine="framework", level="model_checking",
    text=("TLC checks on two instances of the mechanism (X next to Y in either position, X alone) that the actions for X "
          "agree after every call, for all pairs of a curated family and all histories within the bounds; the TLC-enumerated "
          "cases and random cases (random deterministic X, 1-3 random neighbours, random position) are run solo and combined "
          "on the real framework and the recorded action pairs are compared by the trace spec"),
    note="trusted: TLC, harness; bounded: pairs of the curated family, <= 3 calls; random part is sampling",
    design_ref="DESIGN.md section 6/C10",
    technique="TLA+ two-instance spec (NonInterference.tla), TLC exhaustive; paired runs of the real code validated by a trace spec")
META["C06"] = dict(
    engine="sampling", level="model_checking",
    text=("TLC checks for every weight vector (<= 3 targets, resolution R = 16/32) that Pick chooses target i on exactly w_i draws; "
          "the real State::sample_state is enumerated over all 2^23 values of the draw for each listed vector and the per-target "
          "counts and bucket bounds are validated against the same Pick by the trace spec (exhaustive, not statistical); nested transitions "
          "(CounterZero raised by entering the target) are driven on the real framework over a 256 x 256 grid of word pairs: the inner "
          "transition must be taken on exactly its own weight of the second draw whatever the first was (SamplingTrace!ChainGood)"),
    note="trusted: TLC, the counting RNG; the vectors enumerated on the code are a finite list (dyadic grid, f32 corners, non-dyadic, seeded random)",
    design_ref="DESIGN.md section 6/C06",
    technique="TLA+ spec of the sampling function checked by TLC over all vectors; complete enumeration of the implementation's draw space validated against the spec")

META["C20"] = dict(
    engine="ffi", level="model_checking",
    text=("TLC checks the lifecycle model (every sequence of <= 4 API calls over all NULL / invalid argument classes): count <= num_machines, "
          "errors write nothing, no instance without an Ok start; the real extern \"C\" functions are driven next to a Rust Framework over the "
          "same deterministic machines and every recorded call is validated against the spec's StartCode / EventsCode / Conv "
          "(field by field), with canaries around the output buffer and heap accounting"),
    note="trusted: TLC, the driver's canary / allocator bookkeeping; random scenarios are sampling",
    design_ref="DESIGN.md section 6/C20",
    technique="TLA+ lifecycle/translation spec (Ffi.tla) checked by TLC; recorded calls of the real C API validated against it")

SIM_TEXT = ("TLC checks the observer clauses of the property on the simulator mechanism (Simulator.tla: pick_next priorities, "
            "timer firing, blocking, network stack, aggregate delays, a bounded framework oracle) exhaustively within small constants; "
            "for C15-C19 every behaviour of a smaller configuration is turned into machines that answer as the oracle did and run on the "
            "real simulator (spec -> implementation); seeded runs of "
            "the real simulator (random traces, delays, machines, stop settings, filters) are recorded through add-only hooks and "
            "every record is folded through the same observer (SimObs) by TLC; the verdict is the set of failing clauses on real executions")
SIM_NOTE = ("trusted: TLC, the hook records, sim_driver; bounded: <= 2-4 packets, <= 2 machines per side, oracle budget <= 4; "
            "the random part is sampling; known findings (none at present) would be matched by clause:signature")
for _p in ("C14", "C15", "C16", "C17", "C18", "C19"):
    META[_p] = dict(engine="simulator", level="model_checking", text=SIM_TEXT, note=SIM_NOTE,
                    design_ref="DESIGN.md section 6/" + _p,
                    technique="TLA+ mechanism (Simulator.tla) + observer (SimObs.tla) checked by TLC; TLC-generated behaviours replayed on the real simulator and recorded executions of the real simulator validated against the observer (SimTrace.tla) and the mechanism (SimMechTrace.tla)")

META["C12"] = dict(
    engine="validation", level="model_checking",
    text=("Validation.tla states the well-formedness judgement from the property text and the documented parameter domains over an abstract "
          "domain of machines built from adversarial value classes; TLC enumerates the whole domain slice by slice (fractions x state counts, "
          "transition vectors with out-of-range / duplicate targets and boundary sums, 11 distribution families x parameter corners x 9 positions, and a context bare / full / last that the judgement must ignore: "
          "every other optional field populated, judged vector on a rotating event, judged state last) "
          "and emits every case; each case is concretised with three bit patterns and fed to Machine::validate, Machine::new, serialize->from_str "
          "and Framework::new; TLC judges every record: accepted => WellFormed, paths agree, accepted machines build and run (under a CPU-time watchdog)"),
    note="trusted: TLC, the class->bit-pattern table of the harness; exhaustive over the abstract domain, 3 concretisations per class",
    design_ref="DESIGN.md section 6/C12",
    technique="TLA+ judgement spec enumerated exhaustively by TLC; differential run of all validation paths of the real code, records validated against the spec")

META["C13"] = dict(
    engine="distclamp", level="model_checking",
    text=("DistClamp.tla models what Dist::sample and its four consumers do with whatever a sampler returns, over an ordered class domain "
          "including NaN and the infinities; TLC checks for every (raw+start, max) pair that the sample is not NaN, >= 0, <= max when set, "
          "timeouts <= 24 h, limits and counter values u64; every class pair is realised on the real code (Dist::sample and, through a "
          "framework, action timeout / state limit / counter value) and judged against the spec; the samplers of all 11 families are run at "
          "the parameter corners admitted by validation on streams with extreme prefixes under a watchdog and judged (returned, bounded draws, value class)"),
    note="termination of rand_distr's samplers is observed, not modelled (DESIGN.md section 8); trusted: TLC, the watchdog, the class table",
    design_ref="DESIGN.md section 6/C13",
    technique="TLA+ spec of the clamp checked exhaustively by TLC; class-pair realisations and sampler corner runs of the real code validated against it")

META["C11"] = dict(
    engine="codec", level="exploration",
    text=("Codec.tla states both parsers as step-wise pipelines with a memory account in every state (the v2 inflate stage is the read loop with "
          "arbitrary short reads) and TLC checks Ok => validated, no buffer overrun, the bomb-independent memory bound, round trip for every "
          "chunking, rejection of over-long streams and termination for every abstract input; the pinned commit's single read() is kept as a "
          "variant that must violate RoundTrip; the byte-level codec is outside the family, so the claim is exploration: generated valid "
          "machines up to the size limit are round-tripped on the real code and hostile strings are fed to both parsers under a counting "
          "allocator, each followed by a parse of a fixed valid string on the same thread (parsing depends on its input alone), "
          "and TLC judges every record (CodecTrace)"),
    note="exploration level: bincode / zlib / base64 fidelity is sampled, not modelled; trusted: the counting allocator, TLC",
    design_ref="DESIGN.md section 6/C11 and section 8",
    technique="TLA+ pipeline spec with memory account (TLC); generated round trips and hostile inputs on the real parsers, records judged by a TLA+ trace spec")

ENGINES = [
    dict(name="codec", path="/verif/spec/Codec.tla", serves_properties=["C11"],
         kind_free_text="TLA+ pipeline spec of from_str, TLC; codec_cases on the real parsers with a counting allocator"),
    dict(name="distclamp", path="/verif/spec/DistClamp.tla", serves_properties=["C13"],
         kind_free_text="TLA+ spec of Dist::sample and its consumers, TLC over all class pairs, dist_cases on the real samplers"),
    dict(name="validation", path="/verif/spec/Validation.tla", serves_properties=["C12"],
         kind_free_text="TLA+ well-formedness judgement, TLC enumeration of the abstract machine domain, validate_cases on the real constructors"),
    dict(name="simulator", path="/verif/spec/Simulator.tla", serves_properties=["C14", "C15", "C16", "C17", "C18", "C19"],
         kind_free_text="TLA+ mechanism + observer of the simulator, TLC exhaustive and trace validation, sim_driver on the real simulator"),
    dict(name="ffi", path="/verif/spec/Ffi.tla", serves_properties=["C20"],
         kind_free_text="TLA+ spec of the C API, TLC, ffi_driver on the real extern functions"),
    dict(name="sampling", path="/verif/spec/Sampling.tla", serves_properties=["C06"],
         kind_free_text="TLA+ spec of State::sample_state, TLC over all small vectors, sampling_enum enumerates all 2^23 draws"),
    dict(name="framework", path="/verif/spec/Framework.tla",
         serves_properties=["C01", "C02", "C03", "C04", "C05", "C07", "C08", "C09", "C10"],
         kind_free_text="TLA+ mechanism spec of trigger_events + observer spec, TLC (exhaustive, behaviour generation, trace validation), Rust harness fw_replay / fw_random"),
]

NOT_APPLICABLE = {}
