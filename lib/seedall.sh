#!/bin/bash
# seedall.sh [pattern]  run every saved seeded change against the quick check of the property it breaks
cd /verif
for d in seeded/${1:-*}/; do
  n=$(basename $d); id=${n%%-*}
  git -C /repo apply /verif/$d/patch.diff 2>/dev/null || { echo "$n: patch does not apply"; continue; }
  out=$(/verif/check $id ${TIER:+--tier $TIER} 2>&1); rc=$?
  git -C /repo checkout -- .
  if echo "$out" | grep -q "^VIOLATION property=$id"; then echo "$n: caught"; else echo "$n: MISSED (rc=$rc) $(echo "$out" | tail -1 | cut -c1-150)"; fi
done
git -C /repo status --short | head -3
