#!/usr/bin/env python3
"""Regenerates MANIFEST.json from the registry (run after changing checks)."""
import json, os, subprocess, sys
sys.path.insert(0, os.path.dirname(os.path.abspath(__file__)))
import registry

HOOK_COMMITS = subprocess.run(["git", "-C", "/repo", "log", "--format=%h %s", "--grep=^verif:"],
                              capture_output=True, text=True).stdout.strip().splitlines()

PROPS = [json.loads(l) for l in open(os.path.join(os.path.dirname(__file__), "..", "properties.jsonl"))]

def main():
    checks = []
    for p in PROPS:
        pid = p["id"]
        if pid not in registry.CHECKS:
            continue
        meta = registry.META[pid]
        checks.append(dict(
            property_id=pid,
            quick_cmd="./check %s --tier quick" % pid,
            thorough_cmd="./check %s --tier thorough" % pid,
            evidence_file="/verif/evidence/%s.json" % pid,
            replay_cmd_template="./check replay {path}",
            engine=meta["engine"],
            level_claimed=dict(category=meta["level"], text=meta["text"], design_ref=meta["design_ref"]),
            level_note=meta["note"],
            technique=meta["technique"]))
    na = [dict(property_id=p["id"], reason=registry.NOT_APPLICABLE.get(p["id"], "check not built yet"))
          for p in PROPS if p["id"] not in registry.CHECKS]
    m = dict(
        version=1,
        setup_cmd="cd /verif/harness && cargo build --release --offline",
        hooks=dict(
            guard="verif",
            enable="cargo feature `verif` of crates maybenot / maybenot-simulator, switched on by the path dependencies of /verif/harness/Cargo.toml",
            baseline_off_cmd="cd /repo && cargo test --workspace --no-fail-fast --offline",
            source_commits=[c.split()[0] for c in HOOK_COMMITS],
            add_only=True),
        engines=registry.ENGINES,
        checks=checks,
        not_applicable=na,
        notes="All checks: exit 0 held / 1 VIOLATION line / 2 tool error. Quick and thorough honour VERIF_SEED and --seed. See DESIGN.md.")
    with open(os.path.join(os.path.dirname(__file__), "..", "MANIFEST.json"), "w") as f:
        json.dump(m, f, indent=1)
    print("MANIFEST.json: %d checks, %d not applicable" % (len(checks), len(na)))

main()
