#!/bin/bash
# seedrun.sh <patch> <check-id...>  apply a seeded change to /repo, run checks, undo
PATCH=$1; shift
git -C /repo apply $PATCH || { echo "patch does not apply to /repo"; exit 2; }
for id in "$@"; do
  /verif/check $id ${TIER:+--tier $TIER} 2>&1 | grep -E "VIOLATION|held on|TOOL-ERROR|violating|GEN|RAND" | cut -c1-260
done
git -C /repo checkout -- .
git -C /repo status --short | head -3
