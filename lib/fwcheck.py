"""The pipeline shared by the framework properties C01-C05, C07-C09:

  1. MC    TLC exhaustive, mechanism || observer |= property invariants
  2. GEN   TLC emits every behaviour of a (smaller) configuration with the lines
           the specification prescribes; the harness replays them on the real
           code with a scripted RNG and compares line by line (lock-step);
           behaviours on which the code diverges are given to the trace spec,
           whose observer decides which properties the *real* execution breaks
  3. RAND  seeded random machines / histories on the real code, validated by
           the trace spec (mechanism: C05 verdict, observer: the others)
"""
import json
import os
import time

import vlib
from vlib import ToolError, log

VARIANT_CURRENT = "{}"

LOG_INVS = ["Inv_Log", "Inv_ObsAgrees", "Inv_NoStuck", "Inv_Stack"]


def steps_set(steps):
    return "{" + ", ".join(str(s) for s in steps) + "}"


def mc_constants(c, keep_hist, variant=VARIANT_CURRENT):
    return {
        "Variant": variant,
        "FamilyId": '"%s"' % c["family"],
        "AlphabetId": '"%s"' % c["alphabet"],
        "MaxCalls": c["calls"],
        "MaxBatch": c["batch"],
        "TimeStepsId": '"%s"' % c.get("steps", "one"),
        "KeepHist": "TRUE" if keep_hist else "FALSE",
    }


def run_mc(wd, name, c, invs, workers=8, timeout=1500, variant=VARIANT_CURRENT):
    cfg = vlib.tlc_cfg("Spec", mc_constants(c, False, variant), invs)
    r = vlib.run_tlc("FrameworkMC", cfg, wd, name, workers=workers, timeout=timeout)
    return r


def run_gen(wd, name, c, workers=8, timeout=1500, variant=VARIANT_CURRENT):
    """All maximal behaviours of the configuration (BFS), or, with c["simulate"] = n, n random
    walks per worker (TLC -simulate): long histories that breadth-first generation cannot reach."""
    # random walks also evaluate the configuration's property invariants at every state they visit
    cfg = vlib.tlc_cfg("Spec", mc_constants(c, True, variant),
                       ["Emit"] + (list(c.get("invs", [])) + LOG_INVS if c.get("simulate") else []))
    args = ["-simulate", "num=%d" % c["simulate"], "-depth", "1500"] if c.get("simulate") else []
    r = vlib.run_tlc("FrameworkMC", cfg, wd, name, workers=workers, timeout=timeout, args=args)
    beh = os.path.join(wd, name + ".beh")
    r["behaviours"] = vlib.extract_behaviours(r["out"], beh)
    r["beh"] = beh
    return r


def tv_cfg(variant=VARIANT_CURRENT):
    return vlib.tlc_cfg("TSpec", {"Variant": variant})


NONTRIVIAL = {
    "C01": lambda ln: ln.get("k") == "call" and len(ln["evs"]) > 0,
    "C02": lambda ln: (ln.get("k") == "ret" and any(a["kind"] == "SendPadding" for a in ln["acts"]))
    or (ln.get("k") == "ev" and ln["e"] == "PaddingSent"),
    "C03": lambda ln: (ln.get("k") == "ret" and any(a["kind"] == "BlockOutgoing" for a in ln["acts"]))
    or (ln.get("k") == "ev" and ln["e"] in ("BlockingBegin", "BlockingEnd")),
    "C04": lambda ln: ln.get("k") == "ret" and len(ln["acts"]) > 0,
    "C05": lambda ln: ln.get("k") == "tr" and ln["to"] >= -2,
    "C07": lambda ln: ln.get("k") == "dec",
    "C08": lambda ln: ln.get("k") == "ctr" and (ln["a"]["on"] or ln["b"]["on"]),
    "C09": lambda ln: ln.get("k") == "tr" and ln["to"] == -2,
}


def inputs_of(hist):
    """The input projection of a behaviour (what a reader needs to re-run it)."""
    return [dict(t=ln["t"], evs=["%s(%d)" % (e["e"], e["m"]) if e["m"] >= 0 else e["e"] for e in ln["evs"]])
            for ln in hist if ln.get("k") == "call"]


def scan_behaviours(path, prop):
    """distinct non-trivial behaviours (by hash) and a few samples"""
    pred = NONTRIVIAL.get(prop, lambda ln: True)
    seen = set()
    samples = []
    n = 0
    with open(path) as f:
        for line in f:
            n += 1
            hist = json.loads(line)
            if any(pred(ln) for ln in hist):
                h = hash(line)
                if h not in seen:
                    seen.add(h)
                    if len(samples) < 3:
                        samples.append(dict(
                            machines=len(hist[0]["C"]["M"]), calls=inputs_of(hist),
                            returned=[[a["kind"] + "@%d" % a["m"] for a in ln["acts"]]
                                      for ln in hist if ln.get("k") == "ret"]))
    return n, len(seen), samples


def scan_trace(path, prop):
    """distinct non-trivial scenarios in a reset-separated trace"""
    return scan_trace_pred(path, NONTRIVIAL.get(prop, lambda ln: True))


def scan_trace_pred(path, pred):
    total = 0
    nontrivial = 0
    cur_hit = False
    cur_any = False
    with open(path) as f:
        for line in f:
            ln = json.loads(line)
            if ln.get("k") == "reset":
                if cur_any:
                    total += 1
                    nontrivial += 1 if cur_hit else 0
                cur_hit = False
                cur_any = True
                continue
            if not cur_hit and pred(ln):
                cur_hit = True
    if cur_any:
        total += 1
        nontrivial += 1 if cur_hit else 0
    return total, nontrivial


def scenario_lines(path, sid):
    out = []
    on = False
    with open(path) as f:
        for line in f:
            if '"k":"reset"' in line[:80]:
                on = json.loads(line).get("id") == sid
                continue
            if on:
                out.append(json.loads(line))
    return out


class Result:
    def __init__(self, prop, tier, seed):
        self.prop, self.tier, self.seed = prop, tier, seed
        self.t0 = time.time()
        self.states = 0
        self.transitions = 0
        self.traces = 0
        self.evaluations = 0
        self.nontrivial = 0
        self.samples = []
        self.violations = []      # dicts(source, id, names, replay)
        self.notes = []
        self.mc_runs = []
        self.exhaustive = True


def check_fw(prop, tier, seed, plan, verdict_names):
    """plan: dict(mc=[conf...], gen=[conf...], rand=dict(...)) per tier"""
    res = Result(prop, tier, seed)
    wd = vlib.workdir("%s-%s" % (prop, tier))
    b = vlib.build_harness()
    log("[%s] harness built in %.1fs" % (prop, b))
    p = plan[tier]
    workers = p.get("workers", 8)

    # 1. model checking
    for i, c in enumerate(p.get("mc", [])):
        invs = c["invs"] + LOG_INVS
        r = run_mc(wd, "mc%d" % i, c, invs, workers=workers, timeout=c.get("timeout", 1500))
        log("[%s] MC %s/%s calls=%d batch=%d: %d states, %d distinct, depth %d, %.1fs%s" % (
            prop, c["family"], c["alphabet"], c["calls"], c["batch"], r["states"], r["distinct"],
            r["depth"], r["wall"], " VIOLATED " + r["violated"] if r["violated"] else ""))
        if r["error"] or r["distinct"] == 0:
            raise ToolError("model checking of the specification failed (%s): see %s" % (r["error"], r["out"]))
        if r["violated"]:
            # the specification of the current code violates an invariant: decide on the real code.
            # Every behaviour of this configuration is replayed and ALL recorded traces are validated;
            # a verdict on a real trace is a violation, no verdict means the model is wrong (tool error).
            log("[%s]   the model violates %s: replaying the configuration on the real code" % (prop, r["violated"]))
            g = run_gen(wd, "mcgen%d" % i, c, workers=workers, timeout=c.get("timeout", 1500))
            rd = os.path.join(wd, "mcrep%d" % i)
            pr = vlib.run_bin("fw_replay", [g["beh"], rd, "--all"])
            if pr.returncode != 0:
                raise ToolError("fw_replay failed: %s" % pr.stdout[-2000:])
            alltr = os.path.join(rd, "sample.ndjson")
            tv = vlib.trace_validate("FrameworkTrace", tv_cfg(), alltr, wd, "mctv%d" % i)
            hit = sorted({v["id"] for v in tv["verdicts"] if v["name"] in verdict_names})
            if not hit:
                raise ToolError("the model violates %s but no real execution does: modelling error, see %s" % (
                    r["violated"], r["out"]))
            res.violations.append(dict(source="mc%d %s" % (i, r["violated"]), id=hit[0],
                                       names=sorted({v["name"] for v in tv["verdicts"] if v["id"] == hit[0]}),
                                       actual=scenario_lines(alltr, hit[0])))
        res.states += r["distinct"]
        res.transitions += r["states"]
        res.mc_runs.append(dict(family=c["family"], alphabet=c["alphabet"], calls=c["calls"],
                                batch=c["batch"], steps=c.get("steps", "one"), invariants=c["invs"],
                                distinct=r["distinct"], generated=r["states"], depth=r["depth"],
                                wall_s=round(r["wall"], 1)))

    # 2. behaviours of the specification replayed on the code
    for i, c in enumerate(p.get("gen", [])):
        g = run_gen(wd, "gen%d" % i, c, workers=workers, timeout=c.get("timeout", 1500))
        if g["error"] or g.get("violated") or g["behaviours"] == 0:
            raise ToolError("behaviour generation failed (%s): see %s" % (g.get("violated") or g["error"], g["out"]))
        rd = os.path.join(wd, "rep%d" % i)
        pr = vlib.run_bin("fw_replay", [g["beh"], rd])
        if pr.returncode != 0:
            raise ToolError("fw_replay failed: %s" % pr.stdout[-2000:])
        with open(os.path.join(rd, "summary.json")) as f:
            s = json.load(f)
        n, nt, samples = scan_behaviours(g["beh"], prop)
        log("[%s] GEN%s %s/%s calls=%d batch=%d: %d behaviours (%d non-trivial) replayed: conform=%d diverged=%d panics=%d (%.1fs)" % (
            prop, " (random walks)" if c.get("simulate") else "", c["family"], c["alphabet"], c["calls"], c["batch"],
            n, nt, s["conform"], s["diverged"], s["panics"], g["wall"]))
        if c.get("simulate"):
            res.exhaustive = False
        res.traces += n
        res.evaluations += n
        res.nontrivial += nt
        res.samples.extend(samples[:2])
        res.states += g["distinct"]
        res.transitions += g["states"]
        if s["diverged"] > 0:
            div = os.path.join(rd, "diverged.ndjson")
            tv = vlib.trace_validate("FrameworkTrace", tv_cfg(), div, wd, "tvgen%d" % i)
            if tv["incomplete"]:
                raise ToolError("trace validation did not finish: %s" % tv["incomplete"])
            by_id = {}
            for v in tv["verdicts"]:
                by_id.setdefault(v["id"], set()).add(v["name"])
            firsts = {d["behaviour"]: d for d in s["first_divergences"]}
            for sid, names in sorted(by_id.items()):
                hit = names & verdict_names
                if hit:
                    res.violations.append(dict(
                        source="gen%d" % i, id=sid, names=sorted(names),
                        detail=firsts.get(sid, {}).get("mismatch"),
                        expected=firsts.get(sid, {}).get("expected"),
                        actual=scenario_lines(div, sid)))
            log("[%s]   diverged behaviours judged by the trace spec: %s" % (
                prop, {k: sorted(v) for k, v in list(by_id.items())[:5]}))

    # 3. random driver
    rp = p.get("rand")
    if rp:
        trace = os.path.join(wd, "rand.ndjson")
        a = ["--seed", seed, "--scenarios", rp["scenarios"], "--calls", rp["calls"], "--out", trace]
        a += rp.get("flags", [])
        bfile = os.path.join(wd, "boundary.ndjson")
        a += ["--boundary", rp.get("boundary", rp["scenarios"]), "--boundary-out", bfile]
        pr = vlib.run_bin("fw_random", a)
        if pr.returncode != 0:
            raise ToolError("fw_random failed: %s" % pr.stdout[-2000:])
        s = json.loads(pr.stdout.strip().splitlines()[-1])
        tv = vlib.trace_validate("FrameworkTrace", tv_cfg(), trace, wd, "tvrand")
        if tv["incomplete"]:
            raise ToolError("trace validation did not finish: %s" % tv["incomplete"])
        total, nt = scan_trace(trace, prop)
        log("[%s] RAND seed=%d: %d scenarios (%d non-trivial), %d calls, %d lines validated (%d explained by the mechanism) in %.1fs; panics=%d nondet=%d gap-skipped=%d" % (
            prop, seed, total, nt, s["calls"], tv["lines"], tv["explained"], tv["wall"], s["panics"],
            s["nondeterministic"], s["gap_skipped"]))
        res.traces += total
        res.evaluations += total
        res.nontrivial += nt
        res.exhaustive = False
        if s.get("sample"):
            smp = s["sample"]
            res.samples.append(dict(random_scenario=True, machines=len(smp[1]["C"]["M"]),
                                    calls=inputs_of(smp)))
        by_id = {}
        for v in tv["verdicts"]:
            by_id.setdefault(v["id"], set()).add(v["name"])
        for sid, names in sorted(by_id.items()):
            if names & verdict_names:
                res.violations.append(dict(source="rand seed=%d" % seed, id=sid, names=sorted(names),
                                           detail=[d for d in tv["diverged"] if d["id"] == sid][:1],
                                           actual=scenario_lines(trace, sid)))
        # boundary tour (amounts outside the specification's integer encoding): totality and
        # determinism only, judged without TLC
        b = s.get("boundary", {})
        if b.get("run"):
            log("[%s] RAND boundary tour: %d scenarios with amounts around 2^31..2^64, %d calls; panics=%d nondet=%d" % (
                prop, b["run"], b["calls"], b["panics"], b["nondeterministic"]))
            res.evaluations += b["run"]
            res.notes.append("boundary tour: %d scenarios, %d calls with counter amounts, limits and budgets around 2^31, 2^32, 2^53, 2^62, 2^63, 2^64 (outside the specification's integer encoding): only 'every call returns' and 'same inputs, same outputs' are judged there" % (b["run"], b["calls"]))
            for line in open(bfile):
                rec = json.loads(line)
                name = "C01" if rec["problem"]["what"] == "panic" else "C05"
                if name in verdict_names:
                    res.violations.append(dict(source="rand boundary seed=%d" % seed, id=rec["scenario"],
                                               names=[name], detail=rec["problem"], actual=rec))
    # 4. composition: the frameworks embedded in the simulator (std::time::Instant, the simulator's
    #    own event stream, single-event calls) against the same mechanism and observer
    cp = p.get("compose")
    if cp:
        trace = os.path.join(wd, "simfw.ndjson")
        pr = vlib.run_bin("sim_driver", ["--seed", seed, "--scenarios", cp["scenarios"], "--out",
                                         os.path.join(wd, "sim_unused.ndjson"), "--fw-out", trace], timeout=3000)
        if pr.returncode != 0:
            raise ToolError("sim_driver failed: %s" % pr.stdout[-2000:])
        s = json.loads(pr.stdout.strip().splitlines()[-1])
        tv = vlib.trace_validate("FrameworkTrace", tv_cfg(), trace, wd, "tvcompose")
        if tv["incomplete"]:
            raise ToolError("trace validation did not finish: %s" % tv["incomplete"])
        log("[%s] COMPOSE seed=%d: %d framework traces recorded inside %d simulations, %d calls, %d lines (%d explained by the mechanism) in %.1fs" % (
            prop, seed, s["framework_traces"], s["written"], tv["calls"], tv["lines"], tv["explained"], tv["wall"]))
        res.traces += s["framework_traces"]
        res.evaluations += s["framework_traces"]
        res.nontrivial += s["framework_traces"]
        by_id = {}
        for v in tv["verdicts"]:
            by_id.setdefault(v["id"], set()).add(v["name"])
        for sid, names in sorted(by_id.items()):
            if names & verdict_names:
                res.violations.append(dict(source="compose seed=%d" % seed, id=sid, names=sorted(names),
                                           detail=[d for d in tv["diverged"] if d["id"] == sid][:1],
                                           actual=scenario_lines(trace, sid)[:400]))
    return finish(res, plan)


def finish(res, plan):
    prop = res.prop
    wall = time.time() - res.t0
    known = [k for k in vlib.load_known() if k.get("property") == prop and k.get("status") == "known"]
    new = []
    for v in res.violations:
        sig = v.get("signature")
        if sig and any(k.get("signature") == sig for k in known):
            continue
        new.append(v)
    for k in known:
        log("KNOWN-FINDING: property=%s %s" % (prop, k.get("description", k.get("signature"))))
    coverage = dict(
        states=res.states, transitions=res.transitions,
        traces_validated_against_impl=res.traces,
        evaluations=max(res.evaluations, 1), distinct_nontrivial=res.nontrivial,
        rule=plan.get("rule", ""), samples=res.samples[:5] or ["(none)"],
        exhaustive=res.exhaustive, model_checking_runs=res.mc_runs, notes=res.notes)
    vlib.write_evidence(prop, res.tier, res.seed, plan.get("level", "model_checking"), coverage,
                        wall, len(new), plan.get("assumptions", []))
    if new:
        v = new[0]
        path = vlib.write_replay(prop, dict(property=prop, source=v["source"], scenario=v["id"],
                                            verdicts=v["names"], detail=v.get("detail"),
                                            expected=v.get("expected"), actual=v.get("actual")))
        log("[%s] %d violating scenario(s); first: %s scenario %s verdicts %s" % (
            prop, len(new), v["source"], v["id"], v["names"]))
        print("VIOLATION property=%s replay=%s" % (prop, path), flush=True)
        return 1
    log("[%s] held on everything explored (%.1fs)" % (prop, wall))
    return 0


def probe(args):
    fam, alpha, calls, batch, steps = args[0], args[1], int(args[2]), int(args[3]), args[4]
    c = dict(family=fam, alphabet=alpha, calls=calls, batch=batch,
             steps=steps)
    variant = VARIANT_CURRENT
    if "--variant" in args:
        variant = vlib.tla_set(args[args.index("--variant") + 1].split(","))
    wd = vlib.workdir("probe")
    if "--gen" in args:
        vlib.build_harness()
        g = run_gen(wd, "gen", c, workers=12, variant=variant)
        print("gen: %d behaviours, %d states, %.1fs %s" % (g["behaviours"], g["distinct"], g["wall"], g["error"]))
        rd = os.path.join(wd, "rep")
        pr = vlib.run_bin("fw_replay", [g["beh"], rd])
        print(pr.stdout.strip())
        if os.path.getsize(os.path.join(rd, "diverged.ndjson")) > 0:
            tv = vlib.trace_validate("FrameworkTrace", tv_cfg(), os.path.join(rd, "diverged.ndjson"), wd, "tv")
            from collections import Counter
            print("verdicts:", Counter(v["name"] for v in tv["verdicts"]), "incomplete:", tv["incomplete"])
        return 0
    invs = ["Inv_C01", "Inv_C02", "Inv_C03", "Inv_C04", "Inv_C07", "Inv_C08", "Inv_C09"]
    if "--inv" in args:
        invs = args[args.index("--inv") + 1].split(",")
    r = run_mc(wd, "mc", c, invs + LOG_INVS, workers=12, variant=variant)
    print("mc: %d generated, %d distinct, depth %d, %.1fs violated=%s error=%s (%s)" % (
        r["states"], r["distinct"], r["depth"], r["wall"], r["violated"], r["error"], r["out"]))
    return 0


def replay_file(path):
    """Re-run a recorded violation: the behaviour (if it came from the
    specification) is replayed on the current code and the resulting trace, or
    else the recorded trace, is validated again."""
    with open(path) as f:
        rp = json.load(f)
    fw_props = ("C01", "C02", "C03", "C04", "C05", "C07", "C08", "C09")
    if rp.get("property") not in fw_props or not (rp.get("expected") or rp.get("actual")):
        # other engines: re-run the check that produced the file with the same tier and seed
        import registry
        r = rp.get("rerun", {})
        print("re-running ./check %s --tier %s --seed %s" % (rp["property"], r.get("tier", "quick"), r.get("seed", 1)))
        return registry.CHECKS[rp["property"]](rp["property"], r.get("tier", "quick"), int(r.get("seed", 1)))
    wd = vlib.workdir("replay")
    vlib.build_harness()
    trace = os.path.join(wd, "trace.ndjson")
    if rp.get("expected"):
        beh = os.path.join(wd, "one.beh")
        with open(beh, "w") as f:
            f.write(json.dumps(rp["expected"]) + "\n")
        rd = os.path.join(wd, "rep")
        pr = vlib.run_bin("fw_replay", [beh, rd])
        print(pr.stdout.strip())
        with open(os.path.join(rd, "diverged.ndjson")) as f:
            data = f.read()
        if not data:
            print("the code now conforms to the specification on this behaviour")
            return 0
        with open(trace, "w") as f:
            f.write(data)
    else:
        with open(trace, "w") as f:
            f.write(json.dumps({"k": "reset", "id": 0}) + "\n")
            for ln in rp["actual"]:
                f.write(json.dumps(ln) + "\n")
    tv = vlib.trace_validate("FrameworkTrace", tv_cfg(), trace, wd, "tv", shards=1)
    names = sorted({v["name"] for v in tv["verdicts"]})
    print("verdicts on the trace: %s" % names)
    if rp["property"] in names or (rp["property"] == "C01" and "PANIC" in names):
        print("VIOLATION property=%s replay=%s" % (rp["property"], path))
        return 1
    return 0


def ni_constants(c, keep):
    return {"Variant": VARIANT_CURRENT, "PairsId": '"%s"' % c["pairs"], "MaxCalls": c["calls"],
            "MaxBatch": c["batch"], "TimeStepsId": '"%s"' % c.get("steps", "one"),
            "AlphabetId": '"%s"' % c["alphabet"], "KeepHist": "TRUE" if keep else "FALSE"}


def check_c10(prop, tier, seed, plan):
    res = Result(prop, tier, seed)
    wd = vlib.workdir("%s-%s" % (prop, tier))
    vlib.build_harness()
    p = plan[tier]
    workers = p.get("workers", 8)
    for i, c in enumerate(p["mc"]):
        cfg = vlib.tlc_cfg("Spec", ni_constants(c, False), ["NonInterference", "SameRuntime"])
        r = vlib.run_tlc("NonInterference", cfg, wd, "mc%d" % i, workers=workers, timeout=c.get("timeout", 1500))
        log("[C10] MC pairs=%s alphabet=%s calls=%d batch=%d: %d states, %d distinct, %.1fs%s" % (
            c["pairs"], c["alphabet"], c["calls"], c["batch"], r["states"], r["distinct"], r["wall"],
            " VIOLATED " + r["violated"] if r["violated"] else ""))
        if r["error"] or r["violated"] or r["distinct"] == 0:
            raise ToolError("model checking of NonInterference failed (%s): %s" % (r["violated"] or r["error"], r["out"]))
        res.states += r["distinct"]
        res.transitions += r["states"]
        res.mc_runs.append(dict(c, distinct=r["distinct"], generated=r["states"], wall_s=round(r["wall"], 1)))
    traces = []
    for i, c in enumerate(p["gen"]):
        cfg = vlib.tlc_cfg("Spec", ni_constants(c, True), ["Emit"])
        g = vlib.run_tlc("NonInterference", cfg, wd, "gen%d" % i, workers=workers, timeout=c.get("timeout", 1500))
        if g["error"]:
            raise ToolError("generation failed: %s" % g["out"])
        cases = os.path.join(wd, "cases%d.ndjson" % i)
        seen = set()
        n = 0
        with open(cases, "w") as f:
            for payload in vlib.tlc_strings(g["out"], "REPLAY|"):
                n += 1
                h = hash(payload)
                if h in seen:
                    continue
                seen.add(h)
                f.write(payload + "\n")
                if len(res.samples) < 2:
                    hist = json.loads(payload)
                    res.samples.append(dict(pos=hist[0]["pos"], x_states=len(hist[0]["X"]["states"]),
                                            calls=[dict(t=c_["t"], evs=c_["evs"]) for c_ in hist[1:]]))
        trace = os.path.join(wd, "pairgen%d.ndjson" % i)
        pr = vlib.run_bin("fw_pair", ["--cases", cases, "--seed", seed, "--out", trace])
        if pr.returncode != 0:
            raise ToolError("fw_pair failed: %s" % pr.stdout[-2000:])
        s = json.loads(pr.stdout.strip().splitlines()[-1])
        log("[C10] GEN pairs=%s calls=%d batch=%d: %d behaviours, %d distinct input cases run solo and combined on the real code; differing=%d panics=%d" % (
            c["pairs"], c["calls"], c["batch"], n, len(seen), s["cases_with_difference"], s["panics"]))
        res.states += g["distinct"]
        res.transitions += g["states"]
        res.traces += len(seen)
        res.evaluations += len(seen)
        res.nontrivial += len(seen)
        traces.append(("gen%d" % i, trace))
    rp = p.get("rand")
    if rp:
        trace = os.path.join(wd, "pairrand.ndjson")
        pr = vlib.run_bin("fw_pair", ["--random", rp["cases"], "--calls", rp["calls"], "--seed", seed, "--out", trace])
        if pr.returncode != 0:
            raise ToolError("fw_pair failed: %s" % pr.stdout[-2000:])
        s = json.loads(pr.stdout.strip().splitlines()[-1])
        log("[C10] RAND seed=%d: %d random (X, neighbours, position) cases, %d calls; differing=%d panics=%d" % (
            seed, s["cases"], s["calls"], s["cases_with_difference"], s["panics"]))
        res.traces += s["cases"]
        res.evaluations += s["cases"]
        res.nontrivial += s["cases"]
        res.exhaustive = False
        traces.append(("rand seed=%d" % seed, trace))
    cfg = vlib.tlc_cfg("TSpec", {}).replace("CONSTANTS\n", "")
    for name, trace in traces:
        tv = vlib.trace_validate("NonInterferenceTrace", cfg, trace, wd, "tv" + name.split()[0])
        if tv["incomplete"]:
            raise ToolError("trace validation did not finish: %s" % tv["incomplete"])
        for v in tv["verdicts"]:
            if v["name"] in ("C10",):
                res.violations.append(dict(source=name, id=v["id"], names=[v["name"]],
                                           actual=scenario_lines(trace, v["id"])))
    return finish(res, plan)
