"""Checks for the simulator properties C14-C19:

  1. MC    TLC exhaustive on Simulator.tla (mechanism with a bounded framework
           oracle) composed with the observer SimObs
  2. TV    seeded runs of the real simulator (sim_driver: random traces, delays,
           machines, stop settings; re-runs, filtered runs, bounded runs) whose
           hook records are folded through the same observer by SimTrace.tla;
           the verdict for a property is the set of its observer clauses that
           failed on real executions, minus known findings (by signature)
"""
import json
import os
import time

import fwcheck
import vlib
from vlib import ToolError, log


def mc_cfg(c):
    consts = {"Variant": "{}", "MaxPackets": c["packets"], "Delay": c["delay"], "NC": c["nc"], "NS": c["ns"],
              "Budget": c["budget"], "ActionAlphabetId": '"%s"' % c["alphabet"], "MaxEvents": c["events"],
              "Cont": "TRUE" if c.get("cont", True) else "FALSE",
              "KeepHist": "TRUE" if c.get("hist") else "FALSE",
              "TraceSetId": '"%s"' % c.get("traces", "all")}
    return vlib.tlc_cfg("Spec", consts, c["invs"] + ["Inv_Log"] + (["Emit"] if c.get("hist") else []),
                        "PROPERTY TimeMonotone" + ("\nVIEW StateView" if c.get("view") else ""))


ADDRESSED = {"PaddingSent", "TimerBegin", "TimerEnd"}


def scripts_to_scenarios(raw, c, seen, out):
    """behaviours printed by Simulator!Emit -> scenarios for sim_driver --scripts: per machine the
    answers to the events the framework delivers to it (addressed events go to their machine only)"""
    n = 0
    for line in raw:
        b = json.loads(line)
        sides = {1: [[] for _ in range(c["nc"])], 2: [[] for _ in range(c["ns"])]}
        for h in b["hist"]:
            for i, l in enumerate(sides[h["s"]]):
                if h["e"] in ADDRESSED and h["m"] != i:
                    continue
                l.append(h["f"][i])
        for side in sides.values():
            for l in side:
                while l and l[-1]["kind"] == "None":
                    l.pop()
        sc = dict(trace=b["trace"], delay=c["delay"], cont=c.get("cont", True), mc=sides[1], ms=sides[2])
        key = json.dumps(sc, sort_keys=True)
        n += 1
        if key not in seen:
            seen.add(key)
            out.write(json.dumps(sc) + "\n")
    return n


def M(packets, delay, nc, ns, budget, alphabet, events, invs, cont=True, traces="all"):
    return dict(packets=packets, delay=delay, nc=nc, ns=ns, budget=budget, alphabet=alphabet, events=events,
                invs=invs, cont=cont, traces=traces)


PLANS = {
    "C14": dict(
        quick=dict(mc=[M(3, d, 0, 0, 0, "none", 30, ["Inv_C14", "Inv_C15"], cont=False) for d in (0, 1, 2)],
                   drv=["--no-machines", "--scenarios", 300, "--max-packets", 60, "--burst", 70000]),
        # (delay 0 makes every event of a burst simultaneous: 4 packets there are 1.5 x 10^8 states,
        #  38 minutes and tens of GB of TLC's disk files - kept at 3 packets)
        thorough=dict(mc=[M(3, 0, 0, 0, 0, "none", 40, ["Inv_C14", "Inv_C15"], cont=False)]
                         + [M(4, d, 0, 0, 0, "none", 40, ["Inv_C14", "Inv_C15"], cont=False) for d in (1, 2, 4)],
                      drv=["--no-machines", "--scenarios", 3000, "--max-packets", 200, "--burst", 300000])),
    "C15": dict(
        quick=dict(mc=[M(2, 1, 1, 1, 2, "block", 16, ["Inv_C15"], cont=False), M(1, 0, 1, 0, 2, "all", 12, ["Inv_C15"])],
                   gen=[M(2, 1, 1, 1, 1, "block", 16, ["Inv_C15"], cont=False),
                        # deep and narrow: three actions from {one non-bypassable block, replacing paddings},
                        # client packets only, one behaviour per distinct model state (VIEW)
                        dict(M(2, 1, 1, 0, 3, "replace", 18, ["Inv_C15"], traces="client"), view=True)],
                   drv=["--scenarios", 200, "--directed", 2]),
        thorough=dict(mc=[M(2, 1, 1, 1, 2, "all", 18, ["Inv_C15"], cont=False), M(2, 0, 1, 1, 2, "block", 16, ["Inv_C15"])],   # (budget 3 does not finish in 40 minutes since aggregate delays are modelled)
                      gen=[M(2, 1, 1, 1, 1, "block", 16, ["Inv_C15"], cont=False), M(1, 0, 1, 1, 2, "all", 12, ["Inv_C15"]),
                           dict(M(2, 1, 1, 0, 3, "replace", 18, ["Inv_C15"], traces="client"), view=True),
                           dict(M(2, 0, 1, 0, 4, "replace", 20, ["Inv_C15"], traces="client"), view=True)],
                      drv=["--scenarios", 2500, "--directed", 1], mech=300)),
    "C16": dict(
        quick=dict(mc=[M(1, 1, 1, 0, 3, "block", 14, ["Inv_C16"]), M(2, 0, 1, 0, 2, "block", 14, ["Inv_C16"])],
                   gen=[M(1, 1, 1, 0, 2, "block", 14, ["Inv_C16"]),
                        dict(M(2, 1, 1, 0, 3, "replace", 18, ["Inv_C16"], traces="client"), view=True)],
                   drv=["--scenarios", 200, "--directed", 2]),
        thorough=dict(mc=[M(1, 1, 2, 0, 3, "block", 14, ["Inv_C16"]), M(2, 1, 1, 1, 2, "block", 16, ["Inv_C16"])],   # (budget 3 on both sides: > 10^8 states)
                      gen=[M(1, 1, 1, 0, 2, "block", 14, ["Inv_C16"]), M(1, 0, 2, 0, 2, "block", 14, ["Inv_C16"]),
                           dict(M(2, 1, 1, 0, 3, "replace", 18, ["Inv_C16"], traces="client"), view=True),
                           dict(M(2, 0, 1, 0, 4, "replace", 20, ["Inv_C16"], traces="client"), view=True)],
                      drv=["--scenarios", 2500, "--directed", 1], mech=300)),
    "C17": dict(
        quick=dict(mc=[M(1, 0, 1, 0, 3, "action", 14, ["Inv_C17"]), M(1, 1, 1, 1, 2, "action", 14, ["Inv_C17"])],
                   gen=[M(1, 1, 1, 0, 2, "action", 14, ["Inv_C17"]),
                        dict(M(1, 1, 1, 0, 3, "action", 16, ["Inv_C17"], traces="client"), view=True),
                        dict(M(1, 1, 2, 0, 3, "action", 16, ["Inv_C17"], traces="client"), view=True)],
                   drv=["--scenarios", 200, "--directed", 2]),
        thorough=dict(mc=[M(1, 0, 2, 0, 3, "action", 14, ["Inv_C17"]), M(2, 1, 1, 1, 3, "action", 16, ["Inv_C17"])],
                      gen=[M(1, 1, 1, 0, 2, "action", 14, ["Inv_C17"]), M(1, 1, 2, 0, 2, "action", 14, ["Inv_C17"]),
                           dict(M(2, 1, 1, 0, 3, "action", 18, ["Inv_C17"], traces="client"), view=True),
                           dict(M(1, 1, 2, 0, 3, "action", 16, ["Inv_C17"], traces="client"), view=True)],
                      drv=["--scenarios", 2500, "--directed", 1], mech=300)),
    "C18": dict(
        quick=dict(mc=[M(1, 0, 1, 0, 4, "timer", 16, ["Inv_C18"]), M(1, 1, 1, 1, 3, "timer", 14, ["Inv_C18"])],
                   gen=[M(1, 0, 1, 0, 3, "timer", 16, ["Inv_C18"]),
                        dict(M(1, 0, 1, 0, 4, "timer", 18, ["Inv_C18"], traces="client"), view=True)],
                   drv=["--scenarios", 200, "--directed", 2]),
        thorough=dict(mc=[M(1, 0, 2, 0, 4, "timer", 16, ["Inv_C18"]), M(2, 1, 1, 1, 4, "timer", 18, ["Inv_C18"])],
                      gen=[M(1, 0, 1, 0, 3, "timer", 16, ["Inv_C18"]), M(1, 0, 2, 0, 2, "timer", 16, ["Inv_C18"]),
                           dict(M(2, 0, 1, 0, 4, "timer", 20, ["Inv_C18"], traces="client"), view=True)],
                      drv=["--scenarios", 2500, "--directed", 1], mech=300)),
    "C19": dict(
        quick=dict(mc=[M(1, 1, 1, 1, 2, "all", 12, ["Inv_C19"]), M(2, 1, 1, 0, 2, "block", 12, ["Inv_C19"])],
                   gen=[M(1, 1, 1, 1, 1, "all", 12, ["Inv_C19"]), M(1, 1, 1, 1, 2, "action", 12, ["Inv_C19"])],
                   drv=["--scenarios", 200, "--directed", 2], mech=30),
        thorough=dict(mc=[M(2, 1, 1, 1, 2, "all", 18, ["Inv_C19", "Inv_C15", "Inv_C16", "Inv_C17", "Inv_C18"])],
                      gen=[M(1, 1, 1, 1, 2, "all", 12, ["Inv_C19"])],
                      drv=["--scenarios", 2500, "--directed", 1], mech=300)),
}

NONTRIVIAL = {
    "C14": lambda ln: ln.get("k") == "sim" and len(ln["trace"]) > 1,
    "C15": lambda ln: ln.get("k") == "ev" and ln["e"] == "TunnelRecv",
    "C16": lambda ln: ln.get("k") == "ev" and ln["e"] == "BlockingBegin",
    "C17": lambda ln: ln.get("k") == "fired" and ln["w"] == "action",
    "C18": lambda ln: ln.get("k") == "fired" and ln["w"] == "timer",
    "C19": lambda ln: ln.get("k") == "filtered" and len(ln["evs"]) > 0,
}

ASSUME = [
    "no integration delays; traces and delays are whole micro-seconds (runs with sub-micro-second times are skipped and counted)",
    "SimMech computes when an aggregate base delay is pushed and its amount (delay.rs heuristics) and the bottleneck's extra delay (one-second window against the packets-per-second limit, parse_trace's default limit); in model checking the bottleneck is out of reach of the bounds (pps = 0); same-time, same-priority order is left nondeterministic",
    "the frameworks inside the simulator are an oracle in model checking (<= Budget actions from a small alphabet); GEN turns every behaviour's oracle answers into chain machines (one state per delivered event, no limits) and runs them on the real simulator",
    "trace validation reads the add-only hook records of cargo feature `verif` (events with private flags, actions returned, timer firings, exit reason)",
]


def check_sim(prop, tier, seed):
    t0 = time.time()
    wd = vlib.workdir("%s-%s" % (prop, tier))
    vlib.build_harness()
    p = PLANS[prop][tier]
    states = trans = 0
    mc_runs = []
    for i, c in enumerate(p["mc"]):
        r = vlib.run_tlc("Simulator", mc_cfg(c), wd, "mc%d" % i, workers=10 if tier == "quick" else 14, timeout=2400)
        log("[%s] MC Simulator packets<=%d delay=%d machines=%d/%d budget=%d alphabet=%s: %d states, %d distinct, %.1fs%s" % (
            prop, c["packets"], c["delay"], c["nc"], c["ns"], c["budget"], c["alphabet"], r["states"], r["distinct"],
            r["wall"], " VIOLATED " + str(r["violated"]) if r["violated"] else ""))
        if r["error"] or r["violated"] or r["distinct"] == 0:
            raise ToolError("model checking of Simulator failed (%s): %s" % (r["violated"] or r["error"], r["out"]))
        states += r["distinct"]
        trans += r["states"]
        mc_runs.append(dict(c, distinct=r["distinct"], generated=r["states"], wall_s=round(r["wall"], 1)))
    # GEN: behaviours of the model (the oracle's answers as a history variable) become scenarios of the
    # real simulator: machines that answer the j-th event delivered to them as the oracle did
    gen = None
    if p.get("gen"):
        sfile = os.path.join(wd, "scripts.ndjson")
        seen, nbeh = set(), 0
        with open(sfile, "w") as out:
            for i, c in enumerate(p["gen"]):
                c = dict(c, hist=True)
                r = vlib.run_tlc("Simulator", mc_cfg(c), wd, "gen%d" % i, workers=10 if tier == "quick" else 14, timeout=2400)
                if r["error"] or r["violated"] or r["distinct"] == 0:
                    raise ToolError("behaviour generation from Simulator failed (%s): %s" % (r["violated"] or r["error"], r["out"][-3000:]))
                k = scripts_to_scenarios(vlib.tlc_strings(r["out"], "SCRIPT|"), c, seen, out)
                nbeh += k
                states += r["distinct"]
                trans += r["states"]
                mc_runs.append(dict(c, distinct=r["distinct"], generated=r["states"], wall_s=round(r["wall"], 1), behaviours=k))
                log("[%s] GEN Simulator packets<=%d delay=%d machines=%d/%d budget=%d alphabet=%s: %d distinct states, %d behaviours, %.1fs" % (
                    prop, c["packets"], c["delay"], c["nc"], c["ns"], c["budget"], c["alphabet"], r["distinct"], k, r["wall"]))
        gtrace, gmech = os.path.join(wd, "gen.ndjson"), os.path.join(wd, "genmech.ndjson")
        prg = vlib.run_bin("sim_driver", ["--seed", seed, "--scenarios", 0, "--no-scaled", "--scripts", sfile,
                                          "--out", gtrace, "--mech-out", gmech], timeout=3000)
        if prg.returncode != 0:
            raise ToolError("sim_driver --scripts failed: %s" % prg.stdout[-2000:])
        gs = json.loads(prg.stdout.strip().splitlines()[-1])
        cfg0 = vlib.tlc_cfg("TSpec", {}).replace("CONSTANTS\n", "")
        gtv = vlib.trace_validate("SimTrace", cfg0, gtrace, wd, "tvgen", shards=12, timeout=2400)
        gmv = vlib.trace_validate("SimMechTrace", vlib.tlc_cfg("TSpec", {"Variant": "{}"}), gmech, wd, "tvgenmech",
                                  shards=12, timeout=2400)
        if gtv["incomplete"] or gmv["incomplete"]:
            raise ToolError("validation of the generated scenarios did not finish: %s %s" % (gtv["incomplete"], gmv["incomplete"]))
        gen = dict(behaviours=nbeh, scenarios=gs["scripted"], lines=gtv["lines"], mechanism_lines=gmv["lines"],
                   mechanism_divergences=len(gmv["diverged"]), first_divergence=(gmv["diverged"] or [None])[0])
        log("[%s] GEN: %d behaviours -> %d distinct scenarios run on the real simulator; %d lines folded through SimObs in %.1fs; mechanism: %d lines, %d divergences (diagnostic)" % (
            prop, nbeh, gs["scripted"], gtv["lines"], gtv["wall"], gmv["lines"], len(gmv["diverged"])))
    trace = os.path.join(wd, "sim.ndjson")
    pr = vlib.run_bin("sim_driver", ["--seed", seed, "--out", trace] + p["drv"], timeout=3000)
    if pr.returncode != 0:
        raise ToolError("sim_driver failed: %s" % pr.stdout[-2000:])
    s = json.loads(pr.stdout.strip().splitlines()[-1])
    cfg = vlib.tlc_cfg("TSpec", {}).replace("CONSTANTS\n", "")
    tv = vlib.trace_validate("SimTrace", cfg, trace, wd, "tv", shards=12, timeout=2400)
    if tv["incomplete"]:
        raise ToolError("trace validation did not finish: %s" % tv["incomplete"])
    total, nt = fwcheck.scan_trace_pred(trace, NONTRIVIAL[prop])
    if gen:
        gt, gnt = fwcheck.scan_trace_pred(gtrace, NONTRIVIAL[prop])
        total, nt = total + gt, nt + gnt
    log("[%s] sim_driver seed=%d: %s; %d lines folded through SimObs in %.1fs; %d scenarios, %d non-trivial" % (
        prop, seed, {k: s[k] for k in ("written", "events", "actions", "panics", "sub_microsecond_skipped")},
        tv["lines"], tv["wall"], total, nt))
    # mechanism conformance (diagnostic, DESIGN.md section 9 rule 1): real runs that SimMech models
    # completely must be explained step by step by the mechanism
    mech = None
    if p.get("mech"):
        mtrace = os.path.join(wd, "mech.ndjson")
        pr2 = vlib.run_bin("sim_driver", ["--seed", seed + 1000, "--scenarios", p["mech"], "--out",
                                          os.path.join(wd, "mech_unused.ndjson"), "--mech-out", mtrace], timeout=3000)
        if pr2.returncode != 0:
            raise ToolError("sim_driver failed: %s" % pr2.stdout[-2000:])
        ms = json.loads(pr2.stdout.strip().splitlines()[-1])
        mtv = vlib.trace_validate("SimMechTrace", vlib.tlc_cfg("TSpec", {"Variant": "{}"}), mtrace, wd, "tvmech",
                                  shards=12, timeout=2400)
        if mtv["incomplete"]:
            raise ToolError("mechanism trace validation did not finish: %s" % mtv["incomplete"])
        mech = dict(scenarios=ms["mechanism_traces"], lines=mtv["lines"], explained=mtv["explained"],
                    divergences=len(mtv["diverged"]), first_divergence=(mtv["diverged"] or [None])[0])
        log("[%s] MECH: %d real runs (incl. aggregate delays and pps limits, computed by the mechanism), %d lines, %d explained step by step by SimMech, %d divergences (diagnostic)" % (
            prop, mech["scenarios"], mech["lines"], mech["explained"], mech["divergences"]))
    known = [k for k in vlib.load_known() if k.get("property") == prop and k.get("status") == "known"]
    known_sigs = {k["signature"] for k in known}
    seen_known = set()
    viols = []
    all_verdicts = [dict(v, src="drv") for v in tv["verdicts"]]
    if gen:
        all_verdicts += [dict(v, src="gen") for v in gtv["verdicts"]]
    for v in all_verdicts:
        if v["name"] != prop and not (prop == "C19" and v["clause"] == "Panic"):
            continue
        sig = "%s:%s" % (v["clause"], v["sig"])
        if sig in known_sigs:
            seen_known.add(sig)
            continue
        viols.append(v)
    for k in known:
        log("KNOWN-FINDING: property=%s %s [signature %s, %s in this run]" % (
            prop, k["description"], k["signature"], "seen" if k["signature"] in seen_known else "not seen"))
    sample = []
    with open(trace) as f:
        for line in f:
            ln = json.loads(line)
            if ln.get("k") == "sim":
                sample.append(dict(trace=ln["trace"][:6], delay=ln["delay"], machines=[ln["nc"], ln["ns"]], cont=ln["cont"]))
                if len(sample) >= 3:
                    break
    coverage = dict(states=states, transitions=trans, traces_validated_against_impl=total,
                    evaluations=max(total, 1), distinct_nontrivial=nt,
                    rule="scenario = random time-sorted trace x delay x 0-4 random/templated machines per side x fractions x stop settings, run 6-8 times (hooks, re-run, three filters, bounded, sim()); non-trivial = exercises the property's events",
                    samples=sample or ["(none)"], exhaustive=False, model_checking_runs=mc_runs, driver_summary=s,
                    mechanism_conformance=mech, generated_from_model=gen)
    vlib.write_evidence(prop, tier, seed, "model_checking", coverage, time.time() - t0, len(viols), ASSUME)
    if viols:
        v = sorted(viols, key=lambda x: (x["src"], x["id"], x["l"]))[0]
        vtrace = trace if v["src"] == "drv" else gtrace
        path = vlib.write_replay(prop, dict(property=prop, scenario=v["id"], clause=v["clause"], signature=v["sig"],
                                            seed=seed, source=v["src"], driver_args=p["drv"],
                                            actual=[ln for ln in fwcheck.scenario_lines(vtrace, v["id"])
                                                    if ln.get("k") in ("sim", "ev", "act", "fired", "exit")][:400]))
        log("[%s] %d failing clause instance(s); first: scenario %d clause %s (%s)" % (
            prop, len(viols), v["id"], v["clause"], v["sig"]))
        print("VIOLATION property=%s replay=%s" % (prop, path), flush=True)
        return 1
    log("[%s] held on everything explored (%.1fs)" % (prop, time.time() - t0))
    return 0
