"""Helpers shared by the checks: run TLC under a timeout and parse its
statistics, build the Rust harness from /repo's working tree, extract
behaviours, shard trace validation, write evidence, compare with the
known-findings file.

Exit codes of a check: 0 held / 1 violation (VIOLATION line printed) / 2 tool error.
"""
import hashlib
import json
import os
import re
import shutil
import subprocess
import sys
import time

VERIF = os.path.dirname(os.path.dirname(os.path.abspath(__file__)))
SPEC = os.path.join(VERIF, "spec")
HARNESS = os.path.join(VERIF, "harness")
# scratch directory (VERIF_WORK: a second one, so that experiments on a copy of the repository
# can run next to checks of /repo)
WORK = os.environ.get("VERIF_WORK") or os.path.join(VERIF, "work")
EVID = os.path.join(VERIF, "evidence")
REPLAYS = os.path.join(VERIF, "replays")
BIN = os.path.join(HARNESS, "target", "release")
KNOWN = os.path.join(VERIF, "known_findings.json")


class ToolError(Exception):
    pass


def log(msg):
    print(msg, flush=True)


def workdir(name):
    d = os.path.join(WORK, name)
    shutil.rmtree(d, ignore_errors=True)
    os.makedirs(d, exist_ok=True)
    return d


# The repository under test: /repo, unless a background run works on a snapshot of it
# (vp run --with-repo exports VP_RUN_REPO), in which case the harness is copied and re-pointed.
REPO = os.environ.get("VERIF_REPO") or os.environ.get("VP_RUN_REPO") or "/repo"


def build_harness():
    """(Re)build the harness against the repository's current working tree."""
    global BIN
    t0 = time.time()
    env = dict(os.environ, CARGO_NET_OFFLINE="true")
    hdir = HARNESS
    if os.path.realpath(REPO) != "/repo":
        hdir = os.path.join(WORK, "harness-alt")
        os.makedirs(hdir, exist_ok=True)
        subprocess.run(["rsync", "-a", "--delete", "--exclude", "target", HARNESS + "/", hdir + "/"], check=True)
        with open(os.path.join(hdir, "Cargo.toml")) as f:
            toml = f.read().replace('"/repo/', '"%s/' % os.path.realpath(REPO))
        with open(os.path.join(hdir, "Cargo.toml"), "w") as f:
            f.write(toml)
        BIN = os.path.join(hdir, "target", "release")
    lock = os.path.join(hdir, "Cargo.lock")
    if not os.path.exists(lock):
        shutil.copy(os.path.join(REPO, "Cargo.lock"), lock)
    p = subprocess.run(["cargo", "build", "--release", "--offline"], cwd=hdir, env=env,
                       stdout=subprocess.PIPE, stderr=subprocess.STDOUT, text=True)
    if p.returncode != 0:
        sys.stdout.write(p.stdout[-4000:])
        raise ToolError("harness build failed (does /repo compile with --features verif?)")
    return time.time() - t0


def tlc_cfg(spec, constants, invariants=(), extra=""):
    lines = ["SPECIFICATION %s" % spec, "CONSTANTS"]
    for k, v in constants.items():
        lines.append("  %s = %s" % (k, v))
    if invariants:
        lines.append("INVARIANTS " + " ".join(invariants))
    lines.append("CHECK_DEADLOCK FALSE")
    if extra:
        lines.append(extra)
    return "\n".join(lines) + "\n"


def tla_set(items):
    return "{" + ", ".join('"%s"' % i for i in items) + "}"


def _die_with_parent():
    """preexec_fn: the child gets SIGTERM when this process dies (`timeout` passes it on to TLC), so
    an aborted check cannot leave a model checker behind that fills the disk with states"""
    try:
        import ctypes
        import signal
        ctypes.CDLL("libc.so.6", use_errno=True).prctl(1, signal.SIGTERM)
    except Exception:
        pass


def run_tlc(module, cfg_text, wd, name, workers=8, timeout=900, env=None, args=(), out=None):
    """Run TLC; returns dict(out_path, rc, states, distinct, violated, error, wall)."""
    cfg = os.path.join(wd, name + ".cfg")
    with open(cfg, "w") as f:
        f.write(cfg_text)
    out = out or os.path.join(wd, name + ".out")
    meta = os.path.join(wd, name + ".meta")
    cmd = ["timeout", str(timeout), "tlc", "-workers", str(workers), "-metadir", meta, "-cleanup",
           "-noGenerateSpecTE", "-config", cfg] + list(args) + [module + ".tla"]
    e = dict(os.environ)
    if env:
        e.update(env)
    t0 = time.time()
    with open(out, "w") as f:
        p = subprocess.run(cmd, cwd=SPEC, env=e, stdout=f, stderr=subprocess.STDOUT, preexec_fn=_die_with_parent)
    wall = time.time() - t0
    shutil.rmtree(meta, ignore_errors=True)
    res = dict(out=out, rc=p.returncode, wall=wall, states=0, distinct=0, violated=None,
               error=None, depth=0)
    with open(out, errors="replace") as f:
        for line in f:
            m = re.match(r"(\d+) states generated, (\d+) distinct states found", line)
            if m:
                res["states"], res["distinct"] = int(m.group(1)), int(m.group(2))
            m = re.match(r"Error: Invariant (\S+) is violated", line)
            if m and not res["violated"]:
                res["violated"] = m.group(1)
            m = re.match(r"The depth of the complete state graph search is (\d+)", line)
            if m:
                res["depth"] = int(m.group(1))
            if line.startswith("Error:") and "Invariant" not in line and "behavior up to" not in line \
                    and not res["error"]:
                res["error"] = line.strip()
    if p.returncode == 124:
        res["error"] = "timeout after %ds" % timeout
    return res


def tlc_strings(path, prefix):
    """Yield the payloads of lines printed by PrintT(prefix \\o json)."""
    start = '"' + prefix
    with open(path, errors="replace") as f:
        for line in f:
            if line.startswith(start):
                s = json.loads(line.strip())
                yield s[len(prefix):]


def extract_behaviours(tlc_out, dst):
    n = 0
    with open(dst, "w") as out:
        for payload in tlc_strings(tlc_out, "REPLAY|"):
            out.write(payload + "\n")
            n += 1
    return n


def run_bin(name, args, timeout=1800, env=None, stdout=None):
    e = dict(os.environ)
    if env:
        e.update(env)
    p = subprocess.run([os.path.join(BIN, name)] + [str(a) for a in args], env=e,
                       stdout=subprocess.PIPE if stdout is None else stdout,
                       stderr=subprocess.STDOUT, text=True, timeout=timeout)
    return p


def split_scenarios(path, shards, wd, name):
    """Split an ndjson trace at reset lines into <= shards files of similar size."""
    scen = []
    cur = []
    with open(path) as f:
        for line in f:
            if '"k":"reset"' in line[:80]:
                if cur:
                    scen.append(cur)
                cur = [line]
            else:
                cur.append(line)
    if cur:
        scen.append(cur)
    if not scen:
        return [], 0
    shards = max(1, min(shards, len(scen)))
    files = []
    sizes = [0] * shards
    bufs = [[] for _ in range(shards)]
    for s in sorted(scen, key=len, reverse=True):
        i = sizes.index(min(sizes))
        bufs[i].extend(s)
        sizes[i] += len(s)
    for i, b in enumerate(bufs):
        p = os.path.join(wd, "%s.shard%d.ndjson" % (name, i))
        with open(p, "w") as f:
            f.writelines(b)
        files.append(p)
    return files, len(scen)


def trace_validate(module, cfg_text, trace, wd, name, shards=12, timeout=1200):
    """Validate an ndjson trace with a trace spec, sharded over parallel
    single-worker TLC processes. Returns dict(verdicts=[{id,name}], diverged=[...],
    stats, lines, scenarios, incomplete=[...])."""
    files, nscen = split_scenarios(trace, shards, wd, name)
    res = dict(verdicts=[], diverged=[], lines=0, scenarios=nscen, explained=0, calls=0,
               incomplete=[], wall=0.0, notes=[])
    if not files:
        return res
    t0 = time.time()
    procs = []
    for i, fpath in enumerate(files):
        cfg = os.path.join(wd, "%s.%d.cfg" % (name, i))
        with open(cfg, "w") as f:
            f.write(cfg_text)
        out = os.path.join(wd, "%s.%d.out" % (name, i))
        meta = os.path.join(wd, "%s.%d.meta" % (name, i))
        e = dict(os.environ, TRACE=fpath,
                 JAVA_TOOL_OPTIONS="-Xss1g -Xmx3g -Dtlc2.tool.queue.IStateQueue=StateDeque")
        cmd = ["timeout", str(timeout), "tlc", "-workers", "1", "-metadir", meta, "-cleanup",
               "-noGenerateSpecTE", "-config", cfg, module + ".tla"]
        fo = open(out, "w")
        procs.append((subprocess.Popen(cmd, cwd=SPEC, env=e, stdout=fo, stderr=subprocess.STDOUT, preexec_fn=_die_with_parent),
                      fo, out, meta, fpath))
    for p, fo, out, meta, fpath in procs:
        p.wait()
        fo.close()
        shutil.rmtree(meta, ignore_errors=True)
        done = False
        for payload in tlc_strings(out, "TV|DONE|"):
            d = json.loads(payload)
            done = True
            res["lines"] += d["lines"]
            res["explained"] += d["stats"]["explained"]
            res["calls"] += d["stats"]["calls"]
            res["verdicts"].extend(d["verdicts"])
        for payload in tlc_strings(out, "TV|DIVERGED|"):
            res["diverged"].append(json.loads(payload))
        for payload in tlc_strings(out, "TV|VERDICT|"):
            res["notes"].append(json.loads(payload))
        if not done:
            res["incomplete"].append(out)
    res["wall"] = time.time() - t0
    return res


def sha(obj):
    return hashlib.sha256(json.dumps(obj, sort_keys=True).encode()).hexdigest()[:12]


def write_replay(prop, payload):
    os.makedirs(REPLAYS, exist_ok=True)
    payload = dict(payload)
    payload.setdefault("property", prop)
    # how to reproduce: the check itself, with the tier and seed of this run
    payload.setdefault("rerun", dict(tier=os.environ.get("VERIF_TIER_EFFECTIVE", "quick"),
                                     seed=int(os.environ.get("VERIF_SEED_EFFECTIVE", "1"))))
    path = os.path.join(REPLAYS, "%s-%s.json" % (prop, sha(payload)))
    with open(path, "w") as f:
        json.dump(payload, f, indent=1)
    return path


def load_known():
    if not os.path.exists(KNOWN):
        return []
    with open(KNOWN) as f:
        return json.load(f).get("findings", [])


def write_evidence(prop, tier, seed, level, coverage, wall, violations, assumptions):
    os.makedirs(EVID, exist_ok=True)
    ev = dict(property_id=prop, tier=tier, seed=seed, level=level, coverage=coverage,
              assumptions=assumptions, wall_s=round(wall, 2), violations=violations)
    with open(os.path.join(EVID, prop + ".json"), "w") as f:
        json.dump(ev, f, indent=1)
    return ev
