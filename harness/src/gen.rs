//! Seeded random generation of machine configurations (in the shared model
//! format) and call histories for the random drivers.

use crate::model::*;
use rand::Rng;
use rand_xoshiro::rand_core::SeedableRng;
use rand_xoshiro::Xoshiro256StarStar;
use std::collections::BTreeMap;

pub type GRng = Xoshiro256StarStar;

pub fn grng(seed: u64) -> GRng {
    Xoshiro256StarStar::seed_from_u64(seed)
}

pub const EVENTS: [&str; 13] = [
    "NormalRecv",
    "PaddingRecv",
    "TunnelRecv",
    "NormalSent",
    "PaddingSent",
    "TunnelSent",
    "BlockingBegin",
    "BlockingEnd",
    "LimitReached",
    "CounterZero",
    "TimerBegin",
    "TimerEnd",
    "Signal",
];
pub const EXT: [&str; 10] = [
    "NormalRecv",
    "PaddingRecv",
    "TunnelRecv",
    "NormalSent",
    "PaddingSent",
    "TunnelSent",
    "BlockingBegin",
    "BlockingEnd",
    "TimerBegin",
    "TimerEnd",
];

fn pick<'a, T>(r: &mut GRng, xs: &'a [T]) -> &'a T {
    &xs[r.gen_range(0..xs.len())]
}

fn rd(t: &str, p: &[f64], start: f64, max: f64) -> MDist {
    MDist::real(RealDist {
        t: t.into(),
        p: p.to_vec(),
        start,
        max,
    })
}

/// real distributions whose samples stay small (limits, counter values)
pub fn small_real(r: &mut GRng) -> MDist {
    match r.gen_range(0..11) {
        0 => rd("Uniform", &[0.0, 4.0], 0.0, 0.0),
        1 => rd("Normal", &[2.0, 1.5], 0.0, 0.0),
        2 => rd("SkewNormal", &[1.0, 2.0, 3.0], 0.0, 50.0),
        3 => rd("LogNormal", &[0.5, 1.0], 0.0, 1000.0),
        4 => rd("Binomial", &[6.0, 0.5], 0.0, 0.0),
        5 => rd("Geometric", &[0.5], 0.0, 0.0),
        6 => rd("Pareto", &[1.0, 2.0], 0.0, 1000.0),
        7 => rd("Poisson", &[2.0], 0.0, 0.0),
        8 => rd("Weibull", &[2.0, 1.5], 0.0, 1000.0),
        9 => rd("Gamma", &[1.0, 2.0], 0.0, 1000.0),
        _ => rd("Beta", &[2.0, 2.0], 1.0, 0.0),
    }
}

/// real distributions for timeouts / durations, including unbounded tails
pub fn dur_real(r: &mut GRng) -> MDist {
    match r.gen_range(0..14) {
        0 => rd("Uniform", &[0.0, 10.0], 0.0, 0.0),
        1 => rd("Uniform", &[0.0, 1e15], 0.0, 0.0),
        2 => rd("Pareto", &[1.0, 0.1], 0.0, 0.0),
        3 => rd("LogNormal", &[20.0, 10.0], 0.0, 0.0),
        4 => rd("Normal", &[100.0, 1000.0], 0.0, 0.0),
        5 => rd("Poisson", &[1e12], 0.0, 0.0),
        6 => rd("Weibull", &[1e11, 0.5], 0.0, 0.0),
        7 => rd("Gamma", &[1e6, 2.0], 5.0, 0.0),
        8 => rd("Geometric", &[1e-9], 0.0, 0.0),
        9 => rd("Binomial", &[1e9, 0.5], 0.0, 0.0),
        10 => rd("Beta", &[0.5, 0.5], 0.0, 0.5),
        11 => rd("Uniform", &[0.0, 1e15], 0.0, 1e13),
        12 => rd("Pareto", &[1e9, 0.5], 1e11, 1e14),
        _ => rd("SkewNormal", &[0.0, 1e13, -2.0], 0.0, 0.0),
    }
}

fn dur_dist(r: &mut GRng, real: bool) -> MDist {
    match r.gen_range(0..10) {
        0..=5 => MDist::constant(*pick(r, &[0, 0, 1, 2, 5, 100, 1_500_000])),
        6 => MDist::constant(HUGE),
        _ => {
            if real {
                dur_real(r)
            } else {
                MDist::constant(3)
            }
        }
    }
}

fn small_dist(r: &mut GRng, real: bool) -> MDist {
    match r.gen_range(0..10) {
        0..=5 => MDist::constant(*pick(r, &[0, 1, 1, 2, 3])),
        6 => MDist::constant(HUGE),
        _ => {
            if real {
                small_real(r)
            } else {
                MDist::constant(2)
            }
        }
    }
}

pub fn gen_action(r: &mut GRng, real: bool) -> MAction {
    let mut a = MAction::none();
    let limit = |r: &mut GRng| {
        if r.gen_bool(0.5) {
            MDist::none()
        } else {
            small_dist(r, real)
        }
    };
    match r.gen_range(0..100) {
        0..=24 => {}
        25..=37 => {
            a.kind = "Cancel".into();
            a.timer = pick(r, &["Action", "Internal", "All"]).to_string();
        }
        38..=64 => {
            a.kind = "SendPadding".into();
            a.bypass = r.gen();
            a.replace = r.gen();
            a.timeout = dur_dist(r, real);
            a.limit = limit(r);
        }
        65..=87 => {
            a.kind = "BlockOutgoing".into();
            a.bypass = r.gen();
            a.replace = r.gen();
            a.timeout = dur_dist(r, real);
            a.duration = dur_dist(r, real);
            a.limit = limit(r);
        }
        _ => {
            a.kind = "UpdateTimer".into();
            a.replace = r.gen();
            a.duration = dur_dist(r, real);
            a.limit = limit(r);
        }
    }
    a
}

pub fn gen_ctr(r: &mut GRng, real: bool) -> MCtr {
    if r.gen_bool(0.65) {
        return MCtr::none();
    }
    let op = pick(r, &["inc", "dec", "set"]).to_string();
    if r.gen_bool(0.25) {
        MCtr {
            on: true,
            op,
            copy: true,
            dist: MDist::none(),
        }
    } else if r.gen_bool(0.4) {
        MCtr {
            on: true,
            op,
            copy: false,
            dist: MDist::none(),
        }
    } else {
        MCtr {
            on: true,
            op,
            copy: false,
            dist: small_dist(r, real),
        }
    }
}

pub fn gen_state(r: &mut GRng, nstates: usize, real: bool, density: f64) -> MState {
    let mut trans = BTreeMap::new();
    for ev in EVENTS.iter() {
        if !r.gen_bool(density) {
            continue;
        }
        let k = r.gen_range(1..=3usize);
        let mut targets: Vec<i64> = Vec::new();
        for _ in 0..k {
            let t = match r.gen_range(0..20) {
                0 => END,
                1..=3 => SIGNAL,
                _ => r.gen_range(0..nstates) as i64,
            };
            if !targets.contains(&t) {
                targets.push(t);
            }
        }
        // weights in sixteenths, total <= 16
        let mut left = 16u32;
        let mut v = Vec::new();
        let n = targets.len();
        for (i, t) in targets.into_iter().enumerate() {
            if left == 0 {
                break;
            }
            let w = if i + 1 == n && r.gen_bool(0.6) {
                left
            } else {
                r.gen_range(1..=left.min(12))
            };
            left -= w;
            v.push((t, w));
        }
        trans.insert(ev.to_string(), v);
    }
    MState {
        action: gen_action(r, real),
        ca: gen_ctr(r, real),
        cb: gen_ctr(r, real),
        trans,
    }
}

pub fn gen_frac(r: &mut GRng) -> (i64, i64) {
    match r.gen_range(0..8) {
        0..=3 => (0, 1),
        4 => (1, 1),
        5 => (1, 2),
        6 => (1, 4),
        _ => (r.gen_range(1..=7), 8),
    }
}

/// counter storm: every state updates both counters (mostly Set, from a copy, a constant 0 or 1, or
/// the unit) and follows CounterZero with certainty, so that CounterZero chains and cycles - zeroing
/// by Set, by copying a zero, with the other counter re-armed on the way - occur by construction
fn gen_storm(r: &mut GRng, real: bool) -> MMachine {
    let ns = r.gen_range(1..=3usize);
    let ctr = |r: &mut GRng| {
        let op = match r.gen_range(0..20) { 0..=11 => "set", 12..=16 => "dec", _ => "inc" }.to_string();
        match r.gen_range(0..20) {
            0..=6 => MCtr { on: true, op, copy: true, dist: MDist::none() },
            7..=12 => MCtr { on: true, op, copy: false, dist: MDist::none() },
            13..=16 => MCtr { on: true, op, copy: false, dist: MDist::constant(0) },
            _ => MCtr { on: true, op, copy: false, dist: MDist::constant(1) },
        }
    };
    let states = (0..ns)
        .map(|_| {
            let mut trans = BTreeMap::new();
            trans.insert("CounterZero".to_string(), vec![(r.gen_range(0..ns) as i64, 16u32)]);
            trans.insert("NormalSent".to_string(), vec![(r.gen_range(0..ns) as i64, 16u32)]);
            if r.gen_bool(0.5) {
                trans.insert("NormalRecv".to_string(), vec![(r.gen_range(0..ns) as i64, 8u32)]);
            }
            MState { action: gen_action(r, real), ca: ctr(r), cb: ctr(r), trans }
        })
        .collect();
    MMachine { allowedPad: 1000, padFrac: (1, 1), allowedBlock: 1000, blockFrac: (1, 1), states }
}

pub fn gen_machine(r: &mut GRng, real: bool) -> MMachine {
    if r.gen_range(0..6) == 0 {
        return gen_storm(r, real);
    }
    let ns = r.gen_range(1..=4usize);
    let density = *pick(r, &[0.2, 0.35, 0.6]);
    MMachine {
        allowedPad: *pick(r, &[0, 0, 1, 3, 1000, -1]),
        padFrac: gen_frac(r),
        allowedBlock: *pick(r, &[0, 0, 5, 1000, -1]),
        blockFrac: gen_frac(r),
        states: (0..ns).map(|_| gen_state(r, ns, real, density)).collect(),
    }
}

pub fn gen_conf(r: &mut GRng, real: bool) -> MConf {
    // mostly a few machines; now and then more than fit a small fixed-size structure
    // (slots, masks, inline arrays), up to beyond 64
    let n = match r.gen_range(0..40) {
        0 => r.gen_range(65..=70),
        1 => r.gen_range(9..=33),
        _ => *pick(r, &[0usize, 1, 1, 2, 2, 3, 4, 5, 6, 8]),
    };
    MConf {
        M: (0..n).map(|_| gen_machine(r, real)).collect(),
        fwPad: gen_frac(r),
        fwBlk: gen_frac(r),
    }
}

/// one call of a history: events and the absolute time (micro-seconds)
pub struct Call {
    pub events: Vec<(String, i64)>,
    pub t: i64,
}

pub fn gen_event(r: &mut GRng, n: usize, big_ids: bool) -> (String, i64) {
    let e = pick(r, &EXT).to_string();
    let m = if ["PaddingSent", "BlockingBegin", "TimerBegin", "TimerEnd"].contains(&e.as_str()) {
        match r.gen_range(0..12) {
            0 => n as i64,
            1 => n as i64 + 1,
            2 if big_ids => 1 << 30,
            _ => {
                if n == 0 {
                    0
                } else {
                    r.gen_range(0..n) as i64
                }
            }
        }
    } else {
        -1
    };
    (e, m)
}

pub fn gen_history(r: &mut GRng, n: usize, calls: usize, big_ids: bool) -> Vec<Call> {
    let mut t = 0i64;
    let mut h = Vec::new();
    for _ in 0..calls {
        let step = *pick(r, &[0i64, 0, 1, 1, 2, 5, 50, 1000, -3]);
        t = (t + step).clamp(-10, 900_000);
        let len = *pick(r, &[1usize, 1, 1, 1, 0, 2, 3, 4, 5, 7, 12]);
        h.push(Call {
            events: (0..len).map(|_| gen_event(r, n, big_ids)).collect(),
            t,
        });
    }
    h
}

/// a deterministic machine that never signals and ignores Signal
pub fn gen_det_machine(r: &mut GRng) -> MMachine {
    let mut m = gen_machine(r, false);
    let ns = m.states.len();
    for s in m.states.iter_mut() {
        s.trans.remove("Signal");
        for v in s.trans.values_mut() {
            let mut t = v[0].0;
            if t == SIGNAL {
                t = r.gen_range(0..ns) as i64;
            }
            *v = vec![(t, 16)];
        }
        // constant distributions only
        for d in [
            &mut s.action.timeout,
            &mut s.action.duration,
            &mut s.action.limit,
            &mut s.ca.dist,
            &mut s.cb.dist,
        ] {
            if d.any || d.vals.len() > 1 {
                *d = MDist::constant(2);
            }
        }
    }
    m
}

