pub mod gen;
pub mod model;
pub mod render;
pub mod replay;
pub mod srng;
pub mod vclock;
pub mod watchdog;
