//! Rendering of hook records as the specification's lines (Framework.tla,
//! "hook lines") and a small runner around a framework on the virtual clock.

use crate::model::*;
use crate::vclock::{VDur, VTime};
use maybenot::event::Event;
use maybenot::verif::{CtrRec, Outcome, Rec, Snapshot};
use maybenot::{Framework, Machine, MachineId, Timer, TriggerAction, TriggerEvent};
use rand_core::RngCore;
use serde_json::{json, Value};
use std::panic::{catch_unwind, AssertUnwindSafe};

pub const BIG_ID: i64 = 1 << 30;

/// counts values that fell into the encoding gap (such scenarios are not
/// given to TLC)
#[derive(Default, Debug, Clone, Copy)]
pub struct Gaps(pub u64);

impl Gaps {
    pub fn enc(&mut self, n: u64) -> i64 {
        match enc(n) {
            Some(v) => v,
            None => {
                self.0 += 1;
                (SMALL_MAX - 1) as i64
            }
        }
    }
}

pub fn mid(m: i64) -> usize {
    if m >= BIG_ID || m < 0 {
        usize::MAX
    } else {
        m as usize
    }
}

pub fn mid_code(m: usize) -> i64 {
    if m as u64 >= BIG_ID as u64 {
        BIG_ID
    } else {
        m as i64
    }
}

pub fn to_trigger(e: &str, m: i64) -> TriggerEvent {
    let machine = MachineId::from_raw(mid(m));
    match e {
        "NormalRecv" => TriggerEvent::NormalRecv,
        "PaddingRecv" => TriggerEvent::PaddingRecv,
        "TunnelRecv" => TriggerEvent::TunnelRecv,
        "NormalSent" => TriggerEvent::NormalSent,
        "PaddingSent" => TriggerEvent::PaddingSent { machine },
        "TunnelSent" => TriggerEvent::TunnelSent,
        "BlockingBegin" => TriggerEvent::BlockingBegin { machine },
        "BlockingEnd" => TriggerEvent::BlockingEnd,
        "TimerBegin" => TriggerEvent::TimerBegin { machine },
        "TimerEnd" => TriggerEvent::TimerEnd { machine },
        other => panic!("unknown event {other}"),
    }
}

pub fn trigger_json(e: &TriggerEvent) -> Value {
    let (name, m) = match e {
        TriggerEvent::NormalRecv => ("NormalRecv", -1),
        TriggerEvent::PaddingRecv => ("PaddingRecv", -1),
        TriggerEvent::TunnelRecv => ("TunnelRecv", -1),
        TriggerEvent::NormalSent => ("NormalSent", -1),
        TriggerEvent::PaddingSent { machine } => ("PaddingSent", mid_code(machine.into_raw())),
        TriggerEvent::TunnelSent => ("TunnelSent", -1),
        TriggerEvent::BlockingBegin { machine } => {
            ("BlockingBegin", mid_code(machine.into_raw()))
        }
        TriggerEvent::BlockingEnd => ("BlockingEnd", -1),
        TriggerEvent::TimerBegin { machine } => ("TimerBegin", mid_code(machine.into_raw())),
        TriggerEvent::TimerEnd { machine } => ("TimerEnd", mid_code(machine.into_raw())),
    };
    json!({"e": name, "m": m})
}

/// durations of the virtual clock and of std::time, as whole micro-seconds
pub trait DurUs: Copy {
    fn us(&self) -> u64;
}
impl DurUs for VDur {
    fn us(&self) -> u64 {
        self.0
    }
}
impl DurUs for std::time::Duration {
    fn us(&self) -> u64 {
        self.as_micros() as u64
    }
}

pub fn dur_json<D: DurUs>(d: D) -> Value {
    json!([d.us() / 1_000_000, d.us() % 1_000_000])
}

pub fn no_act() -> Value {
    json!({"kind": "None", "m": -1, "bypass": false, "replace": false, "timer": "-",
           "timeout": [0, 0], "duration": [0, 0]})
}

pub fn act_json<T: maybenot::time::Instant>(a: &TriggerAction<T>) -> Value
where
    T::Duration: DurUs,
{
    match a {
        TriggerAction::Cancel { machine, timer } => json!({
            "kind": "Cancel", "m": machine.into_raw(), "bypass": false, "replace": false,
            "timer": match timer { Timer::Action => "Action", Timer::Internal => "Internal", Timer::All => "All" },
            "timeout": [0, 0], "duration": [0, 0]}),
        TriggerAction::SendPadding {
            timeout,
            bypass,
            replace,
            machine,
        } => json!({
            "kind": "SendPadding", "m": machine.into_raw(), "bypass": bypass, "replace": replace,
            "timer": "-", "timeout": dur_json(*timeout), "duration": [0, 0]}),
        TriggerAction::BlockOutgoing {
            timeout,
            duration,
            bypass,
            replace,
            machine,
        } => json!({
            "kind": "BlockOutgoing", "m": machine.into_raw(), "bypass": bypass, "replace": replace,
            "timer": "-", "timeout": dur_json(*timeout), "duration": dur_json(*duration)}),
        TriggerAction::UpdateTimer {
            duration,
            replace,
            machine,
        } => json!({
            "kind": "UpdateTimer", "m": machine.into_raw(), "bypass": false, "replace": replace,
            "timer": "-", "timeout": [0, 0], "duration": dur_json(*duration)}),
    }
}

fn ctr_json(c: &Option<CtrRec>, g: &mut Gaps) -> Value {
    match c {
        None => json!({"on": false, "op": "-", "copy": false, "val": 0, "old": 0, "new": 0}),
        Some(c) => json!({
            "on": true,
            "op": match c.operation {
                maybenot::counter::Operation::Increment => "inc",
                maybenot::counter::Operation::Decrement => "dec",
                maybenot::counter::Operation::Set => "set",
            },
            "copy": c.copy, "val": g.enc(c.value), "old": g.enc(c.old), "new": g.enc(c.new)}),
    }
}

pub fn event_name(e: Event) -> String {
    format!("{:?}", e)
}

pub fn render<T: maybenot::time::Instant>(rec: &Rec<T>, g: &mut Gaps) -> Option<Value>
where
    T::Duration: DurUs,
{
    Some(match rec {
        Rec::Call { .. } => return None, // the driver writes the call line (it knows t)
        Rec::Event { event } => {
            let mut v = trigger_json(event);
            v["k"] = json!("ev");
            v
        }
        Rec::Trans {
            machine,
            event,
            from,
            outcome,
        } => json!({
            "k": "tr", "m": machine, "e": event_name(*event),
            "from": target_code(*from),
            "to": match outcome {
                Outcome::Ended => ENDED,
                Outcome::NoTransition => NONE,
                Outcome::To(t) => target_code(*t),
            }}),
        Rec::Limit {
            machine,
            state,
            limit,
        } => json!({"k": "lim", "m": machine, "s": state, "v": g.enc(*limit)}),
        Rec::Counter {
            machine,
            a,
            b,
            zeroed,
        } => json!({"k": "ctr", "m": machine, "a": ctr_json(a, g), "b": ctr_json(b, g), "z": zeroed}),
        Rec::After {
            machine,
            state,
            allow,
            below,
            slot,
            changed,
        } => json!({
            "k": "as", "m": machine, "s": state, "allow": allow, "below": below,
            "slot": match slot { Some(a) => act_json(a), None => no_act() },
            "ch": changed}),
        Rec::Decrement {
            machine,
            limit,
            raise,
        } => json!({"k": "dec", "m": machine, "v": g.enc(*limit), "raise": raise}),
        Rec::Signal { round, excluded } => json!({
            "k": "sig", "r": round,
            "x": match excluded { Some(x) => *x as i64, None => -1 }}),
    })
}

pub fn snap_json<T: maybenot::time::Instant>(s: &Snapshot<T>, g: &mut Gaps) -> Value
where
    T::Duration: DurUs,
{
    json!({
        "rt": s.machines.iter().map(|m| json!({
            "s": target_code(m.current_state), "lim": g.enc(m.state_limit),
            "pad": g.enc(m.padding_sent), "norm": g.enc(m.normal_sent),
            "blk": g.enc(m.blocking_duration.us()), "a": g.enc(m.counter_a), "b": g.enc(m.counter_b)
        })).collect::<Vec<_>>(),
        "gpad": g.enc(s.padding_sent_packets), "gnorm": g.enc(s.normal_sent_packets),
        "gblk": g.enc(s.blocking_duration.us()), "active": s.blocking_active,
        "pending": s.signal_pending})
}

/// outcome of one trigger_events call on the real framework
pub struct CallOut {
    pub lines: Vec<Value>,
    pub panic: Option<String>,
    pub transitions: u64,
}

pub struct FwRun<R: RngCore> {
    pub fw: Framework<Vec<Machine>, R, VTime>,
    pub gaps: Gaps,
}

pub fn panic_msg(e: Box<dyn std::any::Any + Send>) -> String {
    if let Some(s) = e.downcast_ref::<&str>() {
        s.to_string()
    } else if let Some(s) = e.downcast_ref::<String>() {
        s.clone()
    } else {
        "panic".to_string()
    }
}

impl<R: RngCore> FwRun<R> {
    pub fn new(conf: &MConf, rng: R) -> Result<Self, String> {
        let machines: Vec<Machine> = conf.M.iter().map(|m| m.to_machine_unchecked()).collect();
        Self::from_machines(machines, frac(conf.fwPad), frac(conf.fwBlk), rng)
    }

    pub fn from_machines(
        machines: Vec<Machine>,
        pad: f64,
        blk: f64,
        rng: R,
    ) -> Result<Self, String> {
        let r = catch_unwind(AssertUnwindSafe(|| {
            Framework::new(machines, pad, blk, VTime(0), rng)
        }));
        match r {
            Err(e) => Err(format!("panic in Framework::new: {}", panic_msg(e))),
            Ok(Err(e)) => Err(format!("Framework::new: {e}")),
            Ok(Ok(mut fw)) => {
                fw.verif_enable();
                Ok(FwRun {
                    fw,
                    gaps: Gaps::default(),
                })
            }
        }
    }

    pub fn init_limits(&mut self) -> Vec<i64> {
        let s = self.fw.verif_snapshot();
        s.machines
            .iter()
            .map(|m| self.gaps.enc(m.state_limit))
            .collect()
    }

    /// the `new` line of a trace
    pub fn new_line(&mut self, conf: &MConf) -> Value {
        json!({"k": "new", "C": serde_json::to_value(conf).unwrap(), "limits": self.init_limits()})
    }

    /// one call: the call line, the hook lines and the ret line (or a panic line)
    pub fn call(&mut self, events: &[(String, i64)], t: i64) -> CallOut {
        let evs: Vec<TriggerEvent> = events.iter().map(|(e, m)| to_trigger(e, *m)).collect();
        let mut lines = vec![json!({
            "k": "call", "t": t,
            "evs": evs.iter().map(trigger_json).collect::<Vec<_>>()})];
        let fw = &mut self.fw;
        let r = catch_unwind(AssertUnwindSafe(|| {
            fw.trigger_events(&evs, VTime(t))
                .cloned()
                .collect::<Vec<TriggerAction<VTime>>>()
        }));
        let recs = self.fw.verif_take();
        let mut transitions = 0;
        for rec in &recs {
            if matches!(rec, Rec::Trans { .. }) {
                transitions += 1;
            }
            if let Some(v) = render(rec, &mut self.gaps) {
                lines.push(v);
            }
        }
        match r {
            Ok(actions) => {
                let snap = self.fw.verif_snapshot();
                lines.push(json!({
                    "k": "ret",
                    "acts": actions.iter().map(act_json).collect::<Vec<_>>(),
                    "snap": snap_json(&snap, &mut self.gaps)}));
                CallOut {
                    lines,
                    panic: None,
                    transitions,
                }
            }
            Err(e) => {
                let msg = panic_msg(e);
                lines.push(json!({"k": "panic", "msg": msg}));
                CallOut {
                    lines,
                    panic: Some(msg),
                    transitions,
                }
            }
        }
    }
}
