//! Running code under test in its own thread with a budget of *CPU time*: a call
//! is a hang only when its thread has really been computing for that long, so
//! a loaded machine (TLC with 16 workers, cargo) cannot turn a slow schedule into
//! a false alarm.
use std::sync::mpsc;
use std::time::{Duration, Instant};

pub enum Outcome<T> {
    Done(T),
    /// the thread consumed the CPU budget without returning
    Hang,
    /// the wall-clock cap passed while the thread got (almost) no CPU: nothing can be said
    Starved,
}

fn cpu_ns(path: &str) -> Option<u64> {
    std::fs::read_to_string(path)
        .ok()?
        .split_whitespace()
        .next()?
        .parse()
        .ok()
}

/// Runs `f` in a fresh thread; the thread is abandoned if it does not return.
pub fn run<T: Send + 'static, F: FnOnce() -> T + Send + 'static>(
    f: F,
    cpu_budget: Duration,
    wall_cap: Duration,
) -> Outcome<T> {
    let (tx, rx) = mpsc::channel();
    let (ptx, prx) = mpsc::channel();
    std::thread::spawn(move || {
        let p = std::fs::read_link("/proc/thread-self")
            .ok()
            .map(|p| format!("/proc/{}/schedstat", p.display()));
        let _ = ptx.send(p);
        let r = f();
        let _ = tx.send(r);
    });
    let path = prx.recv_timeout(wall_cap).ok().flatten();
    let t0 = Instant::now();
    loop {
        match rx.recv_timeout(Duration::from_millis(50)) {
            Ok(v) => return Outcome::Done(v),
            Err(mpsc::RecvTimeoutError::Disconnected) => return Outcome::Hang, // thread died without sending
            Err(mpsc::RecvTimeoutError::Timeout) => {}
        }
        let used = match path.as_deref().and_then(cpu_ns) {
            Some(ns) => Duration::from_nanos(ns),
            // no /proc: fall back to wall-clock time with a generous factor
            None => t0.elapsed() / 4,
        };
        if used >= cpu_budget {
            return Outcome::Hang;
        }
        if t0.elapsed() >= wall_cap {
            return Outcome::Starved;
        }
    }
}
