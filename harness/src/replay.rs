//! Spec -> implementation: replay one behaviour emitted by TLC
//! (FrameworkMC, KeepHist = TRUE) on the real framework with a scripted RNG
//! that realises the behaviour's draw outcomes, and compare the hook lines
//! the code produces with the lines the specification prescribes.

use crate::model::*;
use crate::render::*;
use crate::srng::{trans_word, ScriptedRng, Word};
use serde_json::{json, Value};

pub struct ReplayOut {
    /// lines actually produced by the code (new line first)
    pub actual: Vec<Value>,
    /// index (into the behaviour) of the first line that differs, if any
    pub mismatch: Option<Value>,
    /// the code drew more / fewer / wider words than the script prescribes
    pub rng_problem: Option<String>,
    pub panic: Option<String>,
    pub calls: usize,
    pub transitions: u64,
    pub gaps: u64,
}

fn dur_val(d: &Value) -> i64 {
    d[0].as_i64().unwrap() * 1_000_000 + d[1].as_i64().unwrap()
}

fn dist_word(d: &MDist, v: i64) -> Option<Word> {
    let v = if v == 86_400_000_000 && d.vals.contains(&HUGE) {
        HUGE
    } else {
        v
    };
    d.word_for(v).map(Word::U64)
}

/// the words the code must draw while producing `lines` (one call)
pub fn words_for(conf: &MConf, lines: &[Value], flip: &mut u32) -> Vec<Word> {
    let mut words = Vec::new();
    // state entered by the most recent regular transition per nesting level
    let mut entered: Vec<(usize, usize)> = Vec::new();
    for ln in lines {
        match ln["k"].as_str().unwrap_or("") {
            "tr" => {
                let m = ln["m"].as_u64().unwrap() as usize;
                let from = ln["from"].as_i64().unwrap();
                let to = ln["to"].as_i64().unwrap();
                if from >= 0 {
                    let st = &conf.M[m].states[from as usize];
                    if let Some(v) = st.trans.get(ln["e"].as_str().unwrap()) {
                        if !v.is_empty() {
                            let weights: Vec<u32> = v.iter().map(|x| x.1).collect();
                            let j = v.iter().position(|x| x.0 == to).unwrap_or(v.len());
                            *flip = flip.wrapping_add(1);
                            if let Some(w) =
                                trans_word(&weights, j, *flip % 2 == 0, flip.wrapping_mul(37))
                            {
                                words.push(Word::U32(w));
                            }
                        }
                    }
                }
                if to >= 0 {
                    entered.push((m, to as usize));
                }
            }
            "lim" => {
                let m = ln["m"].as_u64().unwrap() as usize;
                let s = ln["s"].as_u64().unwrap() as usize;
                let a = &conf.M[m].states[s].action;
                if a.has_limit() {
                    if let Some(w) = dist_word(&a.limit, ln["v"].as_i64().unwrap()) {
                        words.push(w);
                    }
                }
            }
            "ctr" => {
                if let Some((m, s)) = entered.last().copied() {
                    let st = &conf.M[m].states[s];
                    if st.ca.draws() {
                        if let Some(w) = dist_word(&st.ca.dist, ln["a"]["val"].as_i64().unwrap()) {
                            words.push(w);
                        }
                    }
                    if st.cb.draws() {
                        if let Some(w) = dist_word(&st.cb.dist, ln["b"]["val"].as_i64().unwrap()) {
                            words.push(w);
                        }
                    }
                }
            }
            "as" => {
                entered.pop();
                if ln["allow"].as_bool().unwrap() && ln["below"].as_bool().unwrap() {
                    let m = ln["m"].as_u64().unwrap() as usize;
                    let s = ln["s"].as_u64().unwrap() as usize;
                    let a = &conf.M[m].states[s].action;
                    match a.kind.as_str() {
                        "SendPadding" => {
                            if let Some(w) = dist_word(&a.timeout, dur_val(&ln["slot"]["timeout"])) {
                                words.push(w);
                            }
                        }
                        "BlockOutgoing" => {
                            if let Some(w) = dist_word(&a.timeout, dur_val(&ln["slot"]["timeout"])) {
                                words.push(w);
                            }
                            if let Some(w) =
                                dist_word(&a.duration, dur_val(&ln["slot"]["duration"]))
                            {
                                words.push(w);
                            }
                        }
                        "UpdateTimer" => {
                            if let Some(w) =
                                dist_word(&a.duration, dur_val(&ln["slot"]["duration"]))
                            {
                                words.push(w);
                            }
                        }
                        _ => {}
                    }
                }
            }
            _ => {}
        }
    }
    words
}

pub fn events_of(call: &Value) -> Vec<(String, i64)> {
    call["evs"]
        .as_array()
        .unwrap()
        .iter()
        .map(|e| (e["e"].as_str().unwrap().to_string(), e["m"].as_i64().unwrap()))
        .collect()
}

pub fn replay(hist: &[Value]) -> Result<ReplayOut, String> {
    let new = &hist[0];
    if new["k"] != "new" {
        return Err("behaviour does not start with a new line".into());
    }
    let conf: MConf = serde_json::from_value(new["C"].clone()).map_err(|e| e.to_string())?;
    let rng = ScriptedRng::new();
    // initial limits
    let exp_limits: Vec<i64> = new["limits"]
        .as_array()
        .unwrap()
        .iter()
        .map(|v| v.as_i64().unwrap())
        .collect();
    for (i, m) in conf.M.iter().enumerate() {
        let a = &m.states[0].action;
        if a.has_limit() {
            if let Some(w) = dist_word(&a.limit, exp_limits[i]) {
                rng.load([w]);
            }
        }
    }
    let mut run = FwRun::new(&conf, rng.clone())?;
    let mut out = ReplayOut {
        actual: vec![],
        mismatch: None,
        rng_problem: None,
        panic: None,
        calls: 0,
        transitions: 0,
        gaps: 0,
    };
    let new_line = run.new_line(&conf);
    if new_line["limits"] != new["limits"] {
        out.mismatch = Some(json!({"at": 0, "expected": new["limits"], "actual": new_line["limits"]}));
    }
    out.actual.push(new_line);
    let mut i = 1;
    let mut flip = 0u32;
    while i < hist.len() && out.mismatch.is_none() {
        if hist[i]["k"] != "call" {
            return Err(format!("line {i}: expected a call line"));
        }
        let mut j = i + 1;
        while j < hist.len() && hist[j]["k"] != "ret" {
            j += 1;
        }
        if j == hist.len() {
            // incomplete call at the end of a behaviour: ignore
            break;
        }
        let expected = &hist[i..=j];
        rng.clear();
        rng.load(words_for(&conf, expected, &mut flip));
        let t = hist[i]["t"].as_i64().unwrap();
        let co = run.call(&events_of(&hist[i]), t);
        out.calls += 1;
        out.transitions += co.transitions;
        for (k, exp) in expected.iter().enumerate() {
            match co.lines.get(k) {
                Some(act) if act == exp => {}
                other => {
                    out.mismatch = Some(json!({"at": i + k, "expected": exp,
                                               "actual": other.cloned().unwrap_or(Value::Null)}));
                    break;
                }
            }
        }
        if out.mismatch.is_none() && co.lines.len() != expected.len() {
            out.mismatch = Some(json!({"at": i + expected.len(), "expected": Value::Null,
                                       "actual": co.lines[expected.len()]}));
        }
        out.actual.extend(co.lines);
        if let Some(p) = co.panic {
            out.panic = Some(p);
            break;
        }
        let (exh, wid) = rng.problems();
        if exh > 0 || wid > 0 || rng.pending() > 0 {
            out.rng_problem = Some(format!(
                "exhausted={exh} width_mismatch={wid} unconsumed={}",
                rng.pending()
            ));
            break;
        }
        i = j + 1;
    }
    out.gaps = run.gaps.0;
    Ok(out)
}
