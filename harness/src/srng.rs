//! Scripted random source: realises exactly the draw outcomes a script
//! prescribes and records any disagreement about the number or width of draws
//! (DESIGN.md section 5, "Scripted RNG").

use rand_core::{impls, Error, RngCore};
use std::cell::RefCell;
use std::collections::VecDeque;
use std::rc::Rc;

#[derive(Debug, Clone, Copy, PartialEq, Eq)]
pub enum Word {
    U32(u32),
    U64(u64),
}

#[derive(Debug, Default)]
pub struct ScriptState {
    pub queue: VecDeque<Word>,
    /// draws requested when the script was empty
    pub exhausted: u64,
    /// draws of the wrong width
    pub width_mismatch: u64,
    /// total draws served
    pub served: u64,
    fallback: u64,
}

/// A handle that can be cloned: the framework owns one clone, the driver keeps
/// another to load words and read the counters.
#[derive(Debug, Clone, Default)]
pub struct ScriptedRng(pub Rc<RefCell<ScriptState>>);

impl ScriptedRng {
    pub fn new() -> Self {
        let s = ScriptedRng::default();
        s.0.borrow_mut().fallback = 0x9E37_79B9_7F4A_7C15;
        s
    }
    pub fn load(&self, words: impl IntoIterator<Item = Word>) {
        self.0.borrow_mut().queue.extend(words);
    }
    pub fn clear(&self) {
        self.0.borrow_mut().queue.clear();
    }
    pub fn pending(&self) -> usize {
        self.0.borrow().queue.len()
    }
    pub fn problems(&self) -> (u64, u64) {
        let s = self.0.borrow();
        (s.exhausted, s.width_mismatch)
    }
}

impl ScriptState {
    fn fallback(&mut self) -> u64 {
        // xorshift64*, only used after a divergence has already been recorded
        let mut x = self.fallback;
        x ^= x >> 12;
        x ^= x << 25;
        x ^= x >> 27;
        self.fallback = x;
        x.wrapping_mul(0x2545_F491_4F6C_DD1D)
    }
}

impl RngCore for ScriptedRng {
    fn next_u32(&mut self) -> u32 {
        let mut s = self.0.borrow_mut();
        s.served += 1;
        match s.queue.pop_front() {
            Some(Word::U32(w)) => w,
            Some(Word::U64(w)) => {
                s.width_mismatch += 1;
                w as u32
            }
            None => {
                s.exhausted += 1;
                s.fallback() as u32
            }
        }
    }
    fn next_u64(&mut self) -> u64 {
        let mut s = self.0.borrow_mut();
        s.served += 1;
        match s.queue.pop_front() {
            Some(Word::U64(w)) => w,
            Some(Word::U32(w)) => {
                s.width_mismatch += 1;
                w as u64
            }
            None => {
                s.exhausted += 1;
                s.fallback()
            }
        }
    }
    fn fill_bytes(&mut self, dest: &mut [u8]) {
        impls::fill_bytes_via_next(self, dest)
    }
    fn try_fill_bytes(&mut self, dest: &mut [u8]) -> Result<(), Error> {
        self.fill_bytes(dest);
        Ok(())
    }
}

/// The 32-bit word that makes `State::sample_state` pick bucket `j` (0-based)
/// of a vector with the given weights in sixteenths, or no transition when
/// `j == weights.len()`. `last` selects the last word of the bucket instead
/// of the first; `low` fills the 9 ignored low bits.
pub fn trans_word(weights: &[u32], j: usize, last: bool, low: u32) -> Option<u32> {
    const R: u64 = 1 << 23;
    let cum = |n: usize| -> u64 { weights[..n].iter().map(|w| *w as u64).sum::<u64>() * R / 16 };
    let (lo, hi) = if j < weights.len() {
        (cum(j), cum(j + 1))
    } else {
        (cum(weights.len()), R)
    };
    if lo >= hi {
        return None;
    }
    let k = if last { hi - 1 } else { lo };
    Some(((k as u32) << 9) | (low & 0x1ff))
}

/// The 64-bit word that makes `rng.gen_range(low..high)` (f64) return
/// approximately `x` (low <= x < high).
pub fn uniform_word(low: f64, high: f64, x: f64) -> u64 {
    let frac = ((x - low) / (high - low)).clamp(0.0, 1.0 - f64::EPSILON);
    let f = (frac * (1u64 << 52) as f64) as u64;
    f.min((1u64 << 52) - 1) << 12
}

use rand_xoshiro::Xoshiro256StarStar;

/// the seeded stream with rare words spliced in (all ones, zero, the largest and smallest
/// mantissas of the f32 / f64 conversions): a deterministic machine must not notice which
/// words it is given, however unlikely they are
thread_local! {
    /// words drawn since the last `budget()` and the limit set by it (C01: the work of one call is
    /// bounded by a small constant times (events + 1) x (machines + 1) machine steps; a call that draws
    /// far beyond that is looping or recursing without bound - it is stopped by a panic, which the
    /// driver records like any other panic, long before the stack is exhausted)
    pub static DRAWS: std::cell::Cell<u64> = std::cell::Cell::new(0);
    pub static LIMIT: std::cell::Cell<u64> = std::cell::Cell::new(u64::MAX);
}
/// allow `per_step * (events + 1) * (machines + 1)` words (at most `cap`) until the next call of `budget`
pub fn budget(events: usize, machines: usize) {
    DRAWS.with(|d| d.set(0));
    let em = (events as u64 + 1) * (machines as u64 + 1);
    // deep recursion costs stack: keep the budget far below what a 1 GiB stack holds (a few KiB per level)
    LIMIT.with(|l| l.set((2000 * em).min((40 * em).max(20_000))));
}
fn tick() {
    let n = DRAWS.with(|d| {
        d.set(d.get() + 1);
        d.get()
    });
    if n > LIMIT.with(|l| l.get()) {
        LIMIT.with(|l| l.set(u64::MAX));
        panic!("draw budget of this trigger_events call exhausted after {} words: unbounded work in one call", n - 1);
    }
}

#[derive(Clone)]
pub struct Spiked {
    pub inner: Xoshiro256StarStar,
    pub lcg: u64,
    pub on: bool,
}
impl rand_core::RngCore for Spiked {
    fn next_u32(&mut self) -> u32 {
        (self.next_u64() >> 32) as u32
    }
    fn next_u64(&mut self) -> u64 {
        tick();
        let w = rand_core::RngCore::next_u64(&mut self.inner);
        if !self.on {
            return w;
        }
        self.lcg = self.lcg.wrapping_mul(6364136223846793005).wrapping_add(1442695040888963407);
        match (self.lcg >> 33) % 24 {
            0 | 1 => u64::MAX,
            2 => 0,
            3 => 0xFFFF_FE00_0000_0000, // the top 23 bits: the largest f32 mantissa
            4 => 0xFFFF_FFFF_FFFF_F800, // the top 53 bits: the largest f64 mantissa
            5 => 0x0000_01FF_FFFF_FFFF, // all zero mantissa bits
            _ => w,
        }
    }
    fn fill_bytes(&mut self, dest: &mut [u8]) {
        for chunk in dest.chunks_mut(8) {
            let w = self.next_u64().to_le_bytes();
            chunk.copy_from_slice(&w[..chunk.len()]);
        }
    }
    fn try_fill_bytes(&mut self, dest: &mut [u8]) -> Result<(), rand_core::Error> {
        self.fill_bytes(dest);
        Ok(())
    }
}

