//! Virtual clock for the framework: integer micro-seconds, one correctly
//! rounded division in `div_duration_f64` (DESIGN.md section 5).

use maybenot::time::{Duration, Instant};
use std::ops::AddAssign;

#[derive(Debug, Clone, Copy, PartialEq, Eq, PartialOrd, Ord)]
pub struct VTime(pub i64);

#[derive(Debug, Clone, Copy, PartialEq, Eq, PartialOrd, Ord)]
pub struct VDur(pub u64);

impl Instant for VTime {
    type Duration = VDur;
    fn saturating_duration_since(&self, earlier: Self) -> VDur {
        if self.0 > earlier.0 {
            // i64 difference may exceed i64::MAX; compute in i128
            VDur((self.0 as i128 - earlier.0 as i128) as u64)
        } else {
            VDur(0)
        }
    }
}

impl AddAssign for VDur {
    fn add_assign(&mut self, rhs: Self) {
        // like std::time::Duration, overflow is a panic
        self.0 = self.0.checked_add(rhs.0).expect("overflow when adding durations");
    }
}

impl Duration for VDur {
    fn zero() -> Self {
        VDur(0)
    }
    fn from_micros(micros: u64) -> Self {
        VDur(micros)
    }
    fn is_zero(&self) -> bool {
        self.0 == 0
    }
    fn div_duration_f64(self, rhs: Self) -> f64 {
        self.0 as f64 / rhs.0 as f64
    }
}
