//! The machine format shared with the TLA+ specifications (spec/FwDefs.tla)
//! and its concretisation as maybenot machines.

use enum_map::EnumMap;
use maybenot::action::{Action, Timer};
use maybenot::counter::{Counter, Operation};
use maybenot::dist::{Dist, DistType};
use maybenot::event::Event;
use maybenot::state::{State, Trans};
use maybenot::Machine;
use serde::{Deserialize, Serialize};
use std::collections::BTreeMap;

pub const END: i64 = -1;
pub const SIGNAL: i64 = -2;
pub const NONE: i64 = -3;
pub const ENDED: i64 = -4;
pub const HUGE: i64 = -1;
pub const HUGE_F: f64 = 1e30;
pub const SMALL_MAX: u64 = 1 << 30;

/// u64 -> the specification's one-integer encoding; None for values in the gap
pub fn enc(n: u64) -> Option<i64> {
    if n < SMALL_MAX {
        Some(n as i64)
    } else if n > u64::MAX - SMALL_MAX {
        Some(-((u64::MAX - n) as i64) - 1)
    } else {
        None
    }
}

pub fn dec(v: i64) -> u64 {
    if v >= 0 {
        v as u64
    } else {
        u64::MAX - ((-(v + 1)) as u64)
    }
}

/// A concrete distribution for `any` supports (random drivers)
#[derive(Serialize, Deserialize, Clone, Debug, PartialEq)]
pub struct RealDist {
    pub t: String,
    pub p: Vec<f64>,
    pub start: f64,
    pub max: f64,
}

#[derive(Serialize, Deserialize, Clone, Debug, PartialEq, Default)]
pub struct MDist {
    pub any: bool,
    pub vals: Vec<i64>,
    #[serde(default, skip_serializing_if = "Option::is_none")]
    pub real: Option<RealDist>,
}

impl MDist {
    pub fn none() -> Self {
        MDist::default()
    }
    pub fn constant(v: i64) -> Self {
        MDist {
            any: false,
            vals: vec![v],
            real: None,
        }
    }
    pub fn one_of(vals: &[i64]) -> Self {
        let mut v = vals.to_vec();
        v.sort();
        v.dedup();
        MDist {
            any: false,
            vals: v,
            real: None,
        }
    }
    pub fn real(r: RealDist) -> Self {
        MDist {
            any: true,
            vals: vec![],
            real: Some(r),
        }
    }
    pub fn is_none(&self) -> bool {
        !self.any && self.vals.is_empty()
    }
    pub fn is_const(&self) -> bool {
        !self.any && self.vals.len() == 1
    }
    fn bounds(&self) -> (f64, f64) {
        // support realised as Uniform{low, high}
        let small: Vec<i64> = self.vals.iter().copied().filter(|v| *v != HUGE).collect();
        let has_huge = self.vals.contains(&HUGE);
        match (small.is_empty(), has_huge) {
            (true, _) => (HUGE_F, HUGE_F),
            (false, true) => (*small.iter().min().unwrap() as f64, HUGE_F),
            (false, false) => (
                *small.iter().min().unwrap() as f64,
                *small.iter().max().unwrap() as f64 + 1.0,
            ),
        }
    }
    pub fn to_dist(&self) -> Option<Dist> {
        if let Some(r) = &self.real {
            return Some(real_to_dist(r));
        }
        if self.is_none() {
            return None;
        }
        if self.is_const() {
            let v = if self.vals[0] == HUGE {
                HUGE_F
            } else {
                self.vals[0] as f64
            };
            return Some(Dist::new(DistType::Uniform { low: v, high: v }, 0.0, 0.0));
        }
        let (low, high) = self.bounds();
        Some(Dist::new(DistType::Uniform { low, high }, 0.0, 0.0))
    }
    /// like `to_dist`, for timeouts and durations: a constant HUGE support is
    /// realised in rotating ways that all exceed the 24 h cap (a huge value, a
    /// huge value under an explicit `max` above the cap, a huge `start`)
    pub fn to_dist_dur(&self) -> Option<Dist> {
        use std::sync::atomic::{AtomicUsize, Ordering};
        static ROT: AtomicUsize = AtomicUsize::new(0);
        if self.real.is_none() && self.is_const() && self.vals[0] == HUGE {
            let k = ROT.fetch_add(1, Ordering::Relaxed) % 3;
            return Some(match k {
                0 => Dist::new(DistType::Uniform { low: HUGE_F, high: HUGE_F }, 0.0, 0.0),
                1 => Dist::new(DistType::Uniform { low: HUGE_F, high: HUGE_F }, 0.0, 1e12),
                _ => Dist::new(DistType::Uniform { low: 0.0, high: 0.0 }, HUGE_F, 0.0),
            });
        }
        self.to_dist()
    }
    /// the 64-bit word that makes this distribution return (a value that the
    /// consumers round or truncate to) `v`; None when no draw is consumed
    pub fn word_for(&self, v: i64) -> Option<u64> {
        if self.real.is_some() || self.is_none() || self.is_const() {
            return None;
        }
        let (low, high) = self.bounds();
        let x = if v == HUGE { 0.9 * HUGE_F } else { v as f64 + 0.25 };
        Some(crate::srng::uniform_word(low, high, x))
    }
}

pub fn real_to_dist(r: &RealDist) -> Dist {
    let p = |i: usize| r.p.get(i).copied().unwrap_or(0.0);
    let d = match r.t.as_str() {
        "Uniform" => DistType::Uniform {
            low: p(0),
            high: p(1),
        },
        "Normal" => DistType::Normal {
            mean: p(0),
            stdev: p(1),
        },
        "SkewNormal" => DistType::SkewNormal {
            location: p(0),
            scale: p(1),
            shape: p(2),
        },
        "LogNormal" => DistType::LogNormal {
            mu: p(0),
            sigma: p(1),
        },
        "Binomial" => DistType::Binomial {
            trials: p(0) as u64,
            probability: p(1),
        },
        "Geometric" => DistType::Geometric { probability: p(0) },
        "Pareto" => DistType::Pareto {
            scale: p(0),
            shape: p(1),
        },
        "Poisson" => DistType::Poisson { lambda: p(0) },
        "Weibull" => DistType::Weibull {
            scale: p(0),
            shape: p(1),
        },
        "Gamma" => DistType::Gamma {
            scale: p(0),
            shape: p(1),
        },
        "Beta" => DistType::Beta {
            alpha: p(0),
            beta: p(1),
        },
        other => panic!("unknown distribution family {other}"),
    };
    Dist::new(d, r.start, r.max)
}

#[derive(Serialize, Deserialize, Clone, Debug, PartialEq)]
pub struct MAction {
    pub kind: String,
    pub bypass: bool,
    pub replace: bool,
    pub timer: String,
    pub timeout: MDist,
    pub duration: MDist,
    pub limit: MDist,
}

impl MAction {
    pub fn none() -> Self {
        MAction {
            kind: "None".into(),
            bypass: false,
            replace: false,
            timer: "-".into(),
            timeout: MDist::none(),
            duration: MDist::none(),
            limit: MDist::none(),
        }
    }
    pub fn has_limit(&self) -> bool {
        matches!(
            self.kind.as_str(),
            "SendPadding" | "BlockOutgoing" | "UpdateTimer"
        ) && !self.limit.is_none()
    }
    pub fn to_action(&self) -> Option<Action> {
        match self.kind.as_str() {
            "None" => None,
            "Cancel" => Some(Action::Cancel {
                timer: match self.timer.as_str() {
                    "Action" => Timer::Action,
                    "Internal" => Timer::Internal,
                    "All" => Timer::All,
                    t => panic!("bad timer {t}"),
                },
            }),
            "SendPadding" => Some(Action::SendPadding {
                bypass: self.bypass,
                replace: self.replace,
                timeout: self.timeout.to_dist_dur().expect("timeout"),
                limit: self.limit.to_dist(),
            }),
            "BlockOutgoing" => Some(Action::BlockOutgoing {
                bypass: self.bypass,
                replace: self.replace,
                timeout: self.timeout.to_dist_dur().expect("timeout"),
                duration: self.duration.to_dist_dur().expect("duration"),
                limit: self.limit.to_dist(),
            }),
            "UpdateTimer" => Some(Action::UpdateTimer {
                replace: self.replace,
                duration: self.duration.to_dist_dur().expect("duration"),
                limit: self.limit.to_dist(),
            }),
            k => panic!("bad action kind {k}"),
        }
    }
}

#[derive(Serialize, Deserialize, Clone, Debug, PartialEq)]
pub struct MCtr {
    pub on: bool,
    pub op: String,
    pub copy: bool,
    pub dist: MDist,
}

impl MCtr {
    pub fn none() -> Self {
        MCtr {
            on: false,
            op: "-".into(),
            copy: false,
            dist: MDist::none(),
        }
    }
    pub fn to_counter(&self) -> Option<Counter> {
        if !self.on {
            return None;
        }
        let operation = match self.op.as_str() {
            "inc" => Operation::Increment,
            "dec" => Operation::Decrement,
            "set" => Operation::Set,
            o => panic!("bad op {o}"),
        };
        Some(Counter {
            operation,
            dist: self.dist.to_dist(),
            copy: self.copy,
        })
    }
    pub fn draws(&self) -> bool {
        self.on && !self.copy && !self.dist.is_none()
    }
}

#[derive(Serialize, Deserialize, Clone, Debug, PartialEq)]
pub struct MState {
    pub action: MAction,
    pub ca: MCtr,
    pub cb: MCtr,
    /// event name -> [(target, weight in sixteenths)]
    pub trans: BTreeMap<String, Vec<(i64, u32)>>,
}

#[derive(Serialize, Deserialize, Clone, Debug, PartialEq)]
#[allow(non_snake_case)]
pub struct MMachine {
    pub allowedPad: i64,
    pub padFrac: (i64, i64),
    pub allowedBlock: i64,
    pub blockFrac: (i64, i64),
    pub states: Vec<MState>,
}

#[derive(Serialize, Deserialize, Clone, Debug, PartialEq)]
#[allow(non_snake_case)]
pub struct MConf {
    pub M: Vec<MMachine>,
    pub fwPad: (i64, i64),
    pub fwBlk: (i64, i64),
}

pub fn frac(f: (i64, i64)) -> f64 {
    if f.0 == 0 {
        0.0
    } else {
        f.0 as f64 / f.1 as f64
    }
}

pub fn event_by_name(name: &str) -> Event {
    *Event::iter()
        .find(|e| format!("{:?}", e) == name)
        .unwrap_or_else(|| panic!("unknown event {name}"))
}

pub fn state_target(t: i64) -> usize {
    match t {
        END => maybenot::constants::STATE_END,
        SIGNAL => maybenot::constants::STATE_SIGNAL,
        n if n >= 0 => n as usize,
        n => panic!("bad target {n}"),
    }
}

pub fn target_code(t: usize) -> i64 {
    if t == maybenot::constants::STATE_END {
        END
    } else if t == maybenot::constants::STATE_SIGNAL {
        SIGNAL
    } else {
        t as i64
    }
}

impl MState {
    pub fn to_state(&self) -> State {
        let mut map: EnumMap<Event, Vec<Trans>> = EnumMap::default();
        for (ev, v) in &self.trans {
            // a vector never chosen by a lazily synthesised behaviour was never consulted
            if v.iter().any(|t| t.0 == -9) {
                continue;
            }
            map[event_by_name(ev)] = v
                .iter()
                .map(|(to, w)| Trans(state_target(*to), *w as f32 / 16.0))
                .collect();
        }
        let mut s = State::new(map);
        s.action = self.action.to_action();
        s.counter = (self.ca.to_counter(), self.cb.to_counter());
        s
    }
}

impl MMachine {
    /// build the machine through the public fields (no validation)
    pub fn to_machine_unchecked(&self) -> Machine {
        Machine {
            allowed_padding_packets: dec(self.allowedPad),
            max_padding_frac: frac(self.padFrac),
            allowed_blocked_microsec: dec(self.allowedBlock),
            max_blocking_frac: frac(self.blockFrac),
            states: self.states.iter().map(|s| s.to_state()).collect(),
        }
    }
    pub fn to_machine(&self) -> Result<Machine, maybenot::Error> {
        let m = self.to_machine_unchecked();
        m.validate()?;
        Ok(m)
    }
}
