//! fw_pair (--cases cases.ndjson | --random N --seed S --calls K) --out trace.ndjson
//!
//! C10: runs a deterministic machine X alone and next to neighbours (any
//! position) on the same history - events addressed to neighbours are mapped
//! to an unknown id in the solo run - on the real framework and records, per
//! call, the actions returned for X in both runs (machine index erased).
//! Cases come from TLC (NonInterference.tla, one JSON array per line: a `pair`
//! line followed by `pcall` lines) or from the seeded random generator.
use rand::Rng;
use rand_xoshiro::rand_core::SeedableRng;
use rand_xoshiro::Xoshiro256StarStar;
use serde_json::{json, Value};
use std::io::{BufRead, BufReader, Write};
use verif_harness::gen::*;
use verif_harness::model::*;
use verif_harness::render::*;

fn arg(args: &[String], name: &str) -> Option<String> {
    args.iter()
        .position(|a| a == name)
        .and_then(|i| args.get(i + 1).cloned())
}

struct Case {
    machines: Vec<MMachine>, // the combined framework
    xa: usize,               // index of X in it
    calls: Vec<(i64, Vec<(String, i64)>)>, // events addressed by index in the combined framework
}

const UNKNOWN: i64 = 5;

fn for_x(ret: &Value, x: usize) -> Vec<Value> {
    ret["acts"]
        .as_array()
        .map(|a| {
            a.iter()
                .filter(|v| v["m"].as_u64() == Some(x as u64))
                .map(|v| {
                    let mut v = v.clone();
                    v["m"] = json!(0);
                    v
                })
                .collect()
        })
        .unwrap_or_default()
}

use verif_harness::srng::Spiked;

fn run_case(id: u64, c: &Case, seed: u64, spiked: bool, f: &mut impl Write) -> (u64, bool, bool) {
    let conf_a = MConf {
        M: c.machines.clone(),
        fwPad: (0, 1),
        fwBlk: (0, 1),
    };
    let conf_b = MConf {
        M: vec![c.machines[c.xa].clone()],
        fwPad: (0, 1),
        fwBlk: (0, 1),
    };
    writeln!(f, "{}", json!({"k": "reset", "id": id})).unwrap();
    writeln!(
        f,
        "{}",
        json!({"k": "pair", "n": c.machines.len(), "xa": c.xa,
               "X": serde_json::to_value(&c.machines[c.xa]).unwrap()})
    )
    .unwrap();
    let (mut a, mut b) = match (
        FwRun::new(&conf_a, Spiked { inner: Xoshiro256StarStar::seed_from_u64(seed), lcg: seed ^ 0x1234, on: spiked }),
        FwRun::new(&conf_b, Spiked { inner: Xoshiro256StarStar::seed_from_u64(seed ^ 0xabcdef), lcg: seed ^ 0x9876_5432, on: spiked }),
    ) {
        (Ok(a), Ok(b)) => (a, b),
        _ => {
            writeln!(f, "{}", json!({"k": "panic", "msg": "Framework::new failed"})).unwrap();
            return (0, true, false);
        }
    };
    let mut differ = false;
    let mut n = 0;
    for (t, evs) in &c.calls {
        let evs_b: Vec<(String, i64)> = evs
            .iter()
            .map(|(e, m)| {
                let mb = if *m < 0 {
                    -1
                } else if *m as usize == c.xa {
                    0
                } else {
                    UNKNOWN
                };
                (e.clone(), mb)
            })
            .collect();
        let oa = a.call(evs, *t);
        let ob = b.call(&evs_b, *t);
        n += 1;
        if oa.panic.is_some() || ob.panic.is_some() {
            writeln!(f, "{}", json!({"k": "panic", "msg": oa.panic.or(ob.panic)})).unwrap();
            return (n, true, differ);
        }
        let xa = for_x(oa.lines.last().unwrap(), c.xa);
        let xb = for_x(ob.lines.last().unwrap(), 0);
        if xa != xb {
            differ = true;
        }
        writeln!(
            f,
            "{}",
            json!({"k": "pcall", "t": t,
                   "evs": evs.iter().map(|(e, m)| json!({"e": e, "m": m})).collect::<Vec<_>>(),
                   "a": xa, "b": xb})
        )
        .unwrap();
    }
    (n, false, differ)
}

fn main() {
    let args: Vec<String> = std::env::args().collect();
    let out = arg(&args, "--out").expect("--out");
    let seed: u64 = arg(&args, "--seed").and_then(|s| s.parse().ok()).unwrap_or(1);
    std::panic::set_hook(Box::new(|_| {}));
    let mut f = std::io::BufWriter::new(std::fs::File::create(&out).unwrap());
    let (mut cases, mut calls, mut panics, mut differ) = (0u64, 0u64, 0u64, 0u64);
    if let Some(path) = arg(&args, "--cases") {
        let rd = BufReader::new(std::fs::File::open(path).unwrap());
        for (i, line) in rd.lines().enumerate() {
            let hist: Vec<Value> = serde_json::from_str(&line.unwrap()).expect("case");
            let p = &hist[0];
            let x: MMachine = serde_json::from_value(p["X"].clone()).unwrap();
            let y: MMachine = serde_json::from_value(p["Y"].clone()).unwrap();
            let pos = p["pos"].as_u64().unwrap() as usize;
            let machines = if pos == 0 { vec![x, y] } else { vec![y, x] };
            let cs = hist[1..]
                .iter()
                .map(|c| {
                    let evs = c["evs"]
                        .as_array()
                        .unwrap()
                        .iter()
                        .map(|e| {
                            let m = match e[1].as_str().unwrap() {
                                "-" => -1,
                                "x" => pos as i64,
                                "y" => 1 - pos as i64,
                                _ => UNKNOWN,
                            };
                            (e[0].as_str().unwrap().to_string(), m)
                        })
                        .collect();
                    (c["t"].as_i64().unwrap(), evs)
                })
                .collect();
            let c = Case {
                machines,
                xa: pos,
                calls: cs,
            };
            let (n, p, d) = run_case(i as u64, &c, seed.wrapping_add(i as u64), i % 2 == 1, &mut f);
            cases += 1;
            calls += n;
            panics += p as u64;
            differ += d as u64;
        }
    } else {
        let n: u64 = arg(&args, "--random").and_then(|s| s.parse().ok()).unwrap_or(100);
        let k: usize = arg(&args, "--calls").and_then(|s| s.parse().ok()).unwrap_or(40);
        let mut g = grng(seed ^ 0x5eed);
        for i in 0..n {
            let x = gen_det_machine(&mut g);
            let others = g.gen_range(1..=3usize);
            // every other case runs on the spiked stream; its neighbours use no real
            // distribution families (a sampler of rand_distr fed with extreme words is C13's subject)
            let spiked = i % 2 == 1;
            let mut machines: Vec<MMachine> = (0..others).map(|_| gen_machine(&mut g, !spiked)).collect();
            let xa = g.gen_range(0..=others);
            machines.insert(xa, x);
            if machines.iter().any(|m| m.to_machine().is_err()) {
                continue;
            }
            let hist = gen_history(&mut g, machines.len(), k, false);
            let c = Case {
                machines,
                xa,
                calls: hist.into_iter().map(|c| (c.t, c.events)).collect(),
            };
            let (n, p, d) = run_case(i, &c, seed.wrapping_mul(7919).wrapping_add(i), spiked, &mut f);
            cases += 1;
            calls += n;
            panics += p as u64;
            differ += d as u64;
        }
    }
    f.flush().unwrap();
    println!(
        "{}",
        json!({"cases": cases, "calls": calls, "panics": panics, "cases_with_difference": differ})
    );
}
