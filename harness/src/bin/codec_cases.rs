//! codec_cases --seed S --machines N --bomb-mib B --out recs.ndjson
//!
//! C11: (a) round trips of generated valid machines (all action / distribution
//! / counter variants, 1..tens of thousands of states, extreme numeric
//! fields): serialize -> from_str -> serialize, name, validation, and the same
//! actions from a framework on a fixed history; (b) hostile strings for both
//! parsers: byte- and structure-level mutations of valid encodings,
//! truncations, wrong versions, non-ASCII, random strings, high-ratio zlib
//! streams - never a panic, an error or a machine that validates, and for the
//! current format a peak heap bounded by a constant plus twice the input.
use base64::prelude::*;
use flate2::write::ZlibEncoder;
use flate2::Compression;
use maybenot::parsing::parse_v1_machine;
use maybenot::Machine;
use rand::Rng;
use rand_xoshiro::rand_core::SeedableRng;
use rand_xoshiro::Xoshiro256StarStar;
use serde_json::json;
use std::alloc::{GlobalAlloc, Layout, System};
use std::io::Write;
use std::panic::{catch_unwind, AssertUnwindSafe};
use std::str::FromStr;
use std::sync::atomic::{AtomicI64, Ordering};
use verif_harness::gen::*;
use verif_harness::model::*;
use verif_harness::render::FwRun;

struct Counting;
static LIVE: AtomicI64 = AtomicI64::new(0);
static PEAK: AtomicI64 = AtomicI64::new(0);
fn bump(d: i64) {
    let l = LIVE.fetch_add(d, Ordering::Relaxed) + d;
    PEAK.fetch_max(l, Ordering::Relaxed);
}
unsafe impl GlobalAlloc for Counting {
    unsafe fn alloc(&self, l: Layout) -> *mut u8 {
        bump(l.size() as i64);
        System.alloc(l)
    }
    unsafe fn alloc_zeroed(&self, l: Layout) -> *mut u8 {
        bump(l.size() as i64);
        System.alloc_zeroed(l)
    }
    unsafe fn dealloc(&self, p: *mut u8, l: Layout) {
        LIVE.fetch_sub(l.size() as i64, Ordering::Relaxed);
        System.dealloc(p, l)
    }
    unsafe fn realloc(&self, p: *mut u8, l: Layout, new: usize) -> *mut u8 {
        bump(new as i64 - l.size() as i64);
        System.realloc(p, l, new)
    }
}
#[global_allocator]
static A: Counting = Counting;
/// peak heap growth (bytes above the level at entry) while running f
fn peak_during<T>(f: impl FnOnce() -> T) -> (T, i64) {
    let base = LIVE.load(Ordering::Relaxed);
    PEAK.store(base, Ordering::Relaxed);
    let r = f();
    (r, PEAK.load(Ordering::Relaxed) - base)
}

fn arg(args: &[String], name: &str) -> Option<String> {
    args.iter().position(|a| a == name).and_then(|i| args.get(i + 1).cloned())
}

fn actions_of(m: &Machine, seed: u64) -> Option<Vec<serde_json::Value>> {
    let mut g = grng(seed);
    let hist = gen_history(&mut g, 1, 40, false);
    let mut run = FwRun::from_machines(vec![m.clone()], 0.0, 0.0, Xoshiro256StarStar::seed_from_u64(seed)).ok()?;
    let mut out = vec![];
    for c in hist {
        let o = run.call(&c.events, c.t);
        out.push(o.lines.last().cloned().unwrap_or(json!(null)));
        if o.panic.is_some() {
            break;
        }
    }
    Some(out)
}

fn v2_string(bincode_bytes: &[u8], version: &str) -> String {
    let mut e = ZlibEncoder::new(Vec::new(), Compression::best());
    e.write_all(bincode_bytes).unwrap();
    format!("{}{}", version, BASE64_STANDARD.encode(e.finish().unwrap()))
}
fn v2_payload(s: &str) -> Option<Vec<u8>> {
    use std::io::Read;
    let c = BASE64_STANDARD.decode(&s.as_bytes()[2..]).ok()?;
    let mut d = flate2::read::ZlibDecoder::new(c.as_slice());
    let mut b = vec![];
    d.read_to_end(&mut b).ok()?;
    Some(b)
}
/// a zlib stream that inflates to `mib` MiB of zeros
fn bomb(mib: usize) -> Vec<u8> {
    let mut e = ZlibEncoder::new(Vec::new(), Compression::best());
    let chunk = vec![0u8; 1 << 20];
    for _ in 0..mib {
        e.write_all(&chunk).unwrap();
    }
    e.finish().unwrap()
}

/// the memory account of Codec.tla with the concrete constants: the decoded machine takes at most
/// `amp` times its encoding (the cheapest state encodes in `per` bytes and occupies
/// size_of::<State>() bytes), a growing Vec holds old and new storage at once (factor 2), and
/// the base64-decoded bytes, the fixed inflate buffer and the decoder's copy are one MAX each
fn memory_budget() -> i64 {
    use enum_map::enum_map;
    let plain = || maybenot::state::State::new(enum_map! { _ => vec![] });
    let mk = |n: usize| Machine { allowed_padding_packets: 0, max_padding_frac: 0.0, allowed_blocked_microsec: 0, max_blocking_frac: 0.0,
                                  states: (0..n).map(|_| plain()).collect() };
    let per = (enc_size(&mk(2)) - enc_size(&mk(1))).max(1);
    let amp = (std::mem::size_of::<maybenot::state::State>() as u64 + per - 1) / per;
    ((2 * amp + 3) * maybenot::constants::MAX_DECOMPRESSED_SIZE as u64) as i64
}

fn enc_size(m: &Machine) -> u64 {
    use bincode::Options;
    bincode::DefaultOptions::new().serialized_size(m).unwrap_or(u64::MAX)
}

/// a valid machine whose encoding has exactly `target` bytes (the size limit is inclusive:
/// the abstract input `expands = MAX` of Codec.tla): many minimal states, the remainder
/// filled by the variable-length budgets and by single transitions
fn machine_of_size(target: u64) -> Option<Machine> {
    use enum_map::enum_map;
    use maybenot::event::Event;
    use maybenot::state::{State, Trans};
    let plain = || State::new(enum_map! { _ => vec![] });
    // knobs: n states, the two budgets (variable-length integers), states with one transition,
    // states with a counter update (an odd number of bytes)
    let mk = |n: usize, pad: u64, blk: u64, with_trans: usize, with_ctr: usize| -> Machine {
        let mut states: Vec<State> = (0..n).map(|_| plain()).collect();
        for s in states.iter_mut().take(with_trans) {
            *s = State::new(enum_map! { Event::NormalSent => vec![Trans(0, 1.0)], _ => vec![] });
        }
        for s in states.iter_mut().rev().take(with_ctr) {
            s.counter.0 = Some(maybenot::counter::Counter { operation: maybenot::counter::Operation::Increment, dist: None, copy: false });
        }
        Machine { allowed_padding_packets: pad, max_padding_frac: 0.0, allowed_blocked_microsec: blk, max_blocking_frac: 0.0, states }
    };
    let s1 = enc_size(&mk(1, 0, 0, 0, 0));
    let per = enc_size(&mk(2, 0, 0, 0, 0)) - s1;
    if target < s1 + 8 * per {
        return None;
    }
    let n0 = ((target - s1) / per + 1) as usize;
    let budgets = [0u64, 1000, 100_000, u64::MAX];
    for n in (n0.saturating_sub(4)..=n0).rev() {
        for pad in budgets {
            for blk in budgets {
                let base = enc_size(&mk(n, pad, blk, 0, 0));
                if base > target {
                    continue;
                }
                let d1 = enc_size(&mk(n, pad, blk, 1, 0)) - base;
                let d2 = enc_size(&mk(n, pad, blk, 0, 1)) - base;
                let gap = target - base;
                for y in 0..4u64 {
                    if d1 > 0 && gap >= y * d2 && (gap - y * d2) % d1 == 0 {
                        let x = ((gap - y * d2) / d1) as usize;
                        if x + (y as usize) > n {
                            continue;
                        }
                        let m = mk(n, pad, blk, x, y as usize);
                        if enc_size(&m) == target && m.validate().is_ok() {
                            return Some(m);
                        }
                    }
                }
            }
        }
    }
    None
}

fn main() {
    let args: Vec<String> = std::env::args().collect();
    let seed: u64 = arg(&args, "--seed").and_then(|s| s.parse().ok()).unwrap_or(1);
    let n_machines: usize = arg(&args, "--machines").and_then(|s| s.parse().ok()).unwrap_or(200);
    let bomb_mib: usize = arg(&args, "--bomb-mib").and_then(|s| s.parse().ok()).unwrap_or(64);
    let out = arg(&args, "--out").expect("--out");
    std::panic::set_hook(Box::new(|_| {}));
    let mut f = std::io::BufWriter::new(std::fs::File::create(&out).unwrap());
    let budget = memory_budget();
    let mut g = grng(seed ^ 0xc0dec);
    // (a) valid machines
    let mut machines: Vec<Machine> = Vec::new();
    while machines.len() < n_machines {
        if let Ok(m) = gen_machine(&mut g, true).to_machine() {
            machines.push(m);
        }
    }
    // many states (encoding sizes up to the limit), extreme numeric fields
    let mut skipped_too_big = 0u64;
    for k in [1usize, 10, 100, 1000, 5000, 10000, 20000, 26000, 50000] {
        let mut mm = gen_machine(&mut g, true);
        let proto = mm.states[0].clone();
        mm.states = (0..k)
            .map(|i| {
                let mut s = proto.clone();
                for v in s.trans.values_mut() {
                    for t in v.iter_mut() {
                        if t.0 >= 0 {
                            t.0 = ((i * 7 + 3) % k) as i64;
                        }
                    }
                    let mut seen = std::collections::HashSet::new();
                    v.retain(|t| seen.insert(t.0));
                }
                s
            })
            .collect();
        if let Ok(m) = mm.to_machine() {
            // only encodings that fit the documented limit are in scope
            use bincode::Options;
            let size = bincode::DefaultOptions::new().serialized_size(&m).unwrap_or(u64::MAX);
            if size <= maybenot::constants::MAX_DECOMPRESSED_SIZE as u64 {
                machines.push(m);
            } else {
                skipped_too_big += 1;
            }
        }
    }
    // encodings of exactly the limit and just below it (the limit is inclusive)
    let lim = maybenot::constants::MAX_DECOMPRESSED_SIZE as u64;
    let mut at_limit = 0u64;
    for target in [lim, lim - 1, lim - 2, lim - 7, lim / 2] {
        if let Some(m) = machine_of_size(target) {
            machines.push(m);
            at_limit += 1;
        }
    }
    if at_limit < 3 {
        eprintln!("codec_cases: could not build machines at the size limit");
        std::process::exit(2);
    }
    for (a, b) in [(f64::MAX, f64::MIN_POSITIVE), (-0.0, 5e-324), (1e308, -1e308), (f64::INFINITY, f64::NAN)] {
        let mut m = gen_machine(&mut g, false).to_machine_unchecked();
        m.allowed_padding_packets = u64::MAX;
        m.allowed_blocked_microsec = u64::MAX;
        for s in m.states.iter_mut() {
            if let Some(maybenot::action::Action::SendPadding { timeout, .. }) = s.action.as_mut() {
                timeout.start = a;
                timeout.max = b;
            }
        }
        if m.validate().is_ok() {
            machines.push(m);
        }
    }
    let (mut n_rt, mut n_hostile, mut max_len, mut max_peak) = (0u64, 0u64, 0usize, 0i64);
    let mut strings: Vec<String> = Vec::new();
    for (i, m) in machines.iter().enumerate() {
        if i % 50 == 0 {
            writeln!(f, "{}", json!({"k": "reset", "id": i})).unwrap();
        }
        let r = catch_unwind(AssertUnwindSafe(|| {
            let s1 = m.serialize();
            let (p, peak) = peak_during(|| Machine::from_str(&s1));
            match p {
                Err(_) => (false, false, false, false, false, s1.len(), peak, s1),
                Ok(m2) => {
                    let s2 = m2.serialize();
                    let same_actions = actions_of(m, seed + i as u64) == actions_of(&m2, seed + i as u64);
                    (true, s1 == s2, m.name() == m2.name(), m2.validate().is_ok(), same_actions, s1.len(), peak, s1)
                }
            }
        }));
        match r {
            Err(_) => writeln!(f, "{}", json!({"k": "rt", "panic": true, "ok": false, "same_string": false, "same_name": false,
                                               "revalidates": false, "same_actions": false, "len": 0, "peak": 0, "budget": budget, "states": m.states.len()})).unwrap(),
            Ok((ok, ss, sn, rv, sa, len, peak, s1)) => {
                writeln!(f, "{}", json!({"k": "rt", "panic": false, "ok": ok, "same_string": ss, "same_name": sn, "revalidates": rv,
                                         "same_actions": sa, "len": len, "peak": peak, "budget": budget, "states": m.states.len()})).unwrap();
                max_len = max_len.max(len);
                max_peak = max_peak.max(peak);
                if strings.len() < 60 || m.states.len() >= 1000 {
                    strings.push(s1);
                }
            }
        }
        n_rt += 1;
    }
    // (b) hostile inputs
    let v1: Vec<String> = vec![
        "789cedca2101000000c230e85f1a8387009f9e351d051503ca0003".into(),
        "789cd5cfbb0900200c04d08b833886adb889389f5bb9801be811acb58ae2837ce02010c158b070555c9538b6377a64dbb0ceff242c20b79038507dd169fbede9f629bf6f021efa1b66".into(),
    ];
    let mut hostile: Vec<(&str, String, String)> = Vec::new(); // (parser, kind, input)
    for (si, s) in strings.iter().enumerate() {
        let bytes = s.as_bytes();
        for j in 0..6 {
            let cut = g.gen_range(0..=bytes.len());
            hostile.push(("v2", "truncate".into(), String::from_utf8_lossy(&bytes[..cut]).to_string()));
            let mut b = bytes.to_vec();
            let at = g.gen_range(0..b.len());
            b[at] ^= 1 << g.gen_range(0..7);
            hostile.push(("v2", "bitflip".into(), String::from_utf8_lossy(&b).to_string()));
            let mut b = bytes.to_vec();
            let at = g.gen_range(0..b.len());
            b[at] = *b"AZaz09+/=".get(j % 9).unwrap();
            hostile.push(("v2", "replace".into(), String::from_utf8_lossy(&b).to_string()));
        }
        for v in ["01", "03", "99", "2 ", "\u{e9}2"] {
            hostile.push(("v2", "version".into(), format!("{}{}", v, &s[2..])));
        }
        hostile.push(("v2", "nonascii".into(), format!("02{}\u{e9}", &s[2..])));
        // structure level: corrupt the bincode bytes and re-encode
        if si < 40 {
            if let Some(p) = v2_payload(s) {
                for _ in 0..8 {
                    let mut q = p.clone();
                    match g.gen_range(0..4) {
                        0 => {
                            let at = g.gen_range(0..q.len());
                            q[at] = g.gen();
                        }
                        1 => {
                            let at = g.gen_range(0..q.len());
                            q[at] = 0xff; // often a varint length prefix: huge lengths
                        }
                        2 => q.truncate(g.gen_range(0..q.len())),
                        _ => q.extend(std::iter::repeat(0u8).take(g.gen_range(1..64))),
                    }
                    hostile.push(("v2", "structure".into(), v2_string(&q, "02")));
                }
                // a valid machine followed by a long run of zeros (inflates far beyond the limit)
                let mut q = p.clone();
                q.extend(std::iter::repeat(0u8).take(3 << 20));
                hostile.push(("v2", "valid-prefix-bomb".into(), v2_string(&q, "02")));
            }
        }
    }
    for i in 0..200 {
        let len = g.gen_range(0..300);
        let s: String = (0..len).map(|_| if i % 2 == 0 { g.gen_range(32u8..127) as char } else { char::from_u32(g.gen_range(1..0x2000)).unwrap_or('x') }).collect();
        hostile.push(("v2", "random".into(), s.clone()));
        hostile.push(("v1", "random".into(), s));
    }
    for mib in [2usize, 8, bomb_mib] {
        let z = bomb(mib);
        hostile.push(("v2", format!("bomb-{mib}MiB"), format!("02{}", BASE64_STANDARD.encode(&z))));
        if mib <= 8 {
            hostile.push(("v1", format!("bomb-{mib}MiB"), hex::encode(&z)));
        }
    }
    for s in v1.iter() {
        let bytes = s.as_bytes();
        for _ in 0..20 {
            let cut = g.gen_range(0..=bytes.len());
            hostile.push(("v1", "truncate".into(), String::from_utf8_lossy(&bytes[..cut]).to_string()));
            let mut b = bytes.to_vec();
            let at = g.gen_range(0..b.len());
            b[at] = *b"0123456789abcdefg".get(g.gen_range(0..17)).unwrap();
            hostile.push(("v1", "replace".into(), String::from_utf8_lossy(&b).to_string()));
        }
        hostile.push(("v1", "intact".into(), s.clone()));
        // structure level: hostile header fields inside an otherwise well-formed v1 encoding
        // layout after inflation: version u16 | allowed_padding u64 | max_padding_frac f64 |
        // allowed_blocked u64 | max_blocking_frac f64 | flag u8 | num_states u16 | states
        if let Ok(z) = hex::decode(s) {
            use std::io::Read;
            let mut d = flate2::read::ZlibDecoder::new(z.as_slice());
            let mut raw = vec![];
            if d.read_to_end(&mut raw).is_ok() && raw.len() > 37 {
                let enc = |b: &[u8]| {
                    let mut e = ZlibEncoder::new(Vec::new(), Compression::best());
                    e.write_all(b).unwrap();
                    hex::encode(e.finish().unwrap())
                };
                for bad in [f64::NAN, -f64::NAN, 2.0, -0.5, f64::INFINITY, 1.0 + f64::EPSILON] {
                    for off in [10usize, 26] {
                        let mut q = raw.clone();
                        q[off..off + 8].copy_from_slice(&bad.to_le_bytes());
                        hostile.push(("v1", "v1-header".into(), enc(&q)));
                    }
                }
                let mut q = raw.clone();
                q[35] = 0;
                q[36] = 0;
                q.truncate(37);
                hostile.push(("v1", "v1-header".into(), enc(&q)));
                for _ in 0..20 {
                    let mut q = raw.clone();
                    let at = g.gen_range(2..q.len());
                    q[at] = g.gen();
                    hostile.push(("v1", "v1-structure".into(), enc(&q)));
                }
            }
        }
    }
    // parsing is a function of its input alone: right after every hostile input a fixed valid string is
    // parsed on the same thread and must still round-trip (state carried from one call to the next)
    let canon = strings.first().cloned().unwrap_or_default();
    let canon_v1 = v1[0].clone();
    for (i, (parser, kind, input)) in hostile.iter().enumerate() {
        if i % 200 == 0 {
            writeln!(f, "{}", json!({"k": "reset", "id": 100000 + i})).unwrap();
        }
        let (r, peak) = peak_during(|| {
            catch_unwind(AssertUnwindSafe(|| {
                let p = if *parser == "v2" { Machine::from_str(input) } else { parse_v1_machine(input) };
                p.map(|m| m.validate().is_ok())
            }))
        });
        let (panic, result, revalidates) = match r {
            Err(_) => (true, "panic", false),
            Ok(Err(_)) => (false, "err", false),
            Ok(Ok(v)) => (false, "ok", v),
        };
        max_peak = max_peak.max(peak);
        let after_ok = catch_unwind(AssertUnwindSafe(|| {
            (canon.is_empty() || Machine::from_str(&canon).map(|m| m.serialize() == canon).unwrap_or(false))
                && parse_v1_machine(&canon_v1).is_ok()
        }))
        .unwrap_or(false);
        writeln!(f, "{}", json!({"k": "hostile", "parser": parser, "kind": kind, "len": input.len(), "result": result, "budget": budget,
                                 "revalidates": revalidates, "panic": panic, "peak": peak, "after_ok": after_ok})).unwrap();
        n_hostile += 1;
    }
    f.flush().unwrap();
    println!("{}", json!({"round_trips": n_rt, "hostile": n_hostile, "max_string_len": max_len, "max_peak_bytes": max_peak,
                          "skipped_beyond_size_limit": skipped_too_big, "machines_at_size_limit": at_limit, "memory_budget": budget}));
}
