//! dist_cases --seed S --streams N --out recs.ndjson
//!
//! C13: (1) every class pair (raw + start, max) of DistClamp.tla realised on
//! the real code; (2) for all 11 distribution families, the parameter corners
//! admitted by validation x start/max corners x random streams made of a short
//! prefix of extreme words followed by a fair stream: did the call return,
//! how many words did it draw, what came out. A `begin` line is flushed
//! before every sample so that a hang is attributable.
use maybenot::action::Action;
use maybenot::counter::{Counter, Operation};
use maybenot::dist::{Dist, DistType};
use maybenot::event::Event;
use maybenot::state::{State, Trans};
use maybenot::{Framework, Machine, TriggerAction, TriggerEvent};
use enum_map::enum_map;
use rand_core::{impls, Error, RngCore};
use rand_xoshiro::rand_core::SeedableRng;
use rand_xoshiro::Xoshiro256StarStar;
use serde_json::json;
use std::io::Write;
use std::panic::{catch_unwind, AssertUnwindSafe};
use verif_harness::vclock::VTime;

fn arg(args: &[String], name: &str) -> Option<String> {
    args.iter().position(|a| a == name).and_then(|i| args.get(i + 1).cloned())
}

const ORDER: [(&str, f64); 13] = [
    ("-inf", f64::NEG_INFINITY),
    ("neg", -7.0),
    ("-0", -0.0),
    ("+0", 0.0),
    ("sub", 5e-324),
    ("subhi", 2.225073858507201e-308), // the largest subnormal
    ("minnorm", f64::MIN_POSITIVE),
    ("tiny", 0.3),
    ("mid", 5.0),
    ("day", 86_400_000_000.0),
    ("overday", 1e11),
    ("huge", 1e30),
    ("+inf", f64::INFINITY),
];

fn class_of(v: f64) -> String {
    if v.is_nan() {
        return "NaN".into();
    }
    for (n, r) in ORDER.iter() {
        if v.to_bits() == r.to_bits() {
            return n.to_string();
        }
    }
    format!("other:{v:e}")
}
fn u64_class(v: u64) -> String {
    match v {
        0 => "zero".into(),
        1..=999 => "small".into(),
        86_400_000_000 => "dayus".into(),
        u64::MAX => "umax".into(),
        _ => "big".into(),
    }
}

/// a stream: `prefix` copies of an extreme word, then a fair stream; counts words
struct Stream {
    prefix: Vec<u64>,
    pos: usize,
    fair: Xoshiro256StarStar,
    words: u64,
}
impl RngCore for Stream {
    fn next_u32(&mut self) -> u32 {
        self.next_u64() as u32
    }
    fn next_u64(&mut self) -> u64 {
        self.words += 1;
        if self.pos < self.prefix.len() {
            self.pos += 1;
            self.prefix[self.pos - 1]
        } else {
            self.fair.next_u64()
        }
    }
    fn fill_bytes(&mut self, dest: &mut [u8]) {
        impls::fill_bytes_via_next(self, dest)
    }
    fn try_fill_bytes(&mut self, dest: &mut [u8]) -> Result<(), Error> {
        self.fill_bytes(dest);
        Ok(())
    }
}

fn machine_with(action: Option<Action>, counter: Option<Counter>) -> Machine {
    let mut s0 = State::new(enum_map! { Event::NormalSent => vec![Trans(1, 1.0)], _ => vec![] });
    s0.action = None;
    let mut s1 = State::new(enum_map! { Event::NormalSent => vec![Trans(1, 1.0)], _ => vec![] });
    s1.action = action;
    s1.counter = (counter, None);
    Machine {
        allowed_padding_packets: u64::MAX,
        max_padding_frac: 0.0,
        allowed_blocked_microsec: u64::MAX,
        max_blocking_frac: 0.0,
        states: vec![s0, s1],
    }
}

fn main() {
    let args: Vec<String> = std::env::args().collect();
    let seed: u64 = arg(&args, "--seed").and_then(|s| s.parse().ok()).unwrap_or(1);
    let streams: usize = arg(&args, "--streams").and_then(|s| s.parse().ok()).unwrap_or(6);
    let out = arg(&args, "--out").expect("--out");
    std::panic::set_hook(Box::new(|_| {}));
    let mut f = std::fs::File::create(&out).unwrap();
    let mut id = 0u64;
    let mut n_clamp = 0u64;
    // (1) the clamp, every class pair, two realisations of x = raw + start
    let mut all: Vec<(&str, f64)> = ORDER.to_vec();
    all.push(("NaN", f64::NAN));
    for (xn, xv) in all.iter() {
        for (mn, mv) in all.iter() {
            for real in 0..2 {
                let (raw, start) = if real == 0 && xv.is_finite() { (*xv, 0.0) } else { (0.0, *xv) };
                if !raw.is_finite() {
                    continue;
                }
                let d = Dist::new(DistType::Uniform { low: raw, high: raw }, start, *mv);
                if d.validate().is_err() {
                    continue;
                }
                writeln!(f, "{}", json!({"k": "reset", "id": id})).unwrap();
                let fair = || Xoshiro256StarStar::seed_from_u64(seed);
                let sample = d.sample(&mut fair());
                let ok = Dist::new(DistType::Uniform { low: 1.0, high: 1.0 }, 0.0, 0.0);
                // timeout through a framework
                let run = |m: Machine| -> Option<(Vec<TriggerAction<VTime>>, maybenot::verif::Snapshot<VTime>)> {
                    catch_unwind(AssertUnwindSafe(|| {
                        let mut fw = Framework::new(vec![m], 0.0, 0.0, VTime(0), fair()).ok()?;
                        let a: Vec<_> = fw.trigger_events(&[TriggerEvent::NormalSent], VTime(1)).cloned().collect();
                        Some((a, fw.verif_snapshot()))
                    }))
                    .ok()
                    .flatten()
                };
                let t = run(machine_with(Some(Action::SendPadding { bypass: false, replace: false, timeout: d, limit: None }), None));
                let timeout = t.as_ref().and_then(|(a, _)| a.first().map(|x| match x {
                    TriggerAction::SendPadding { timeout, .. } => u64_class(timeout.0),
                    _ => "?".into(),
                })).unwrap_or("none".into());
                let l = run(machine_with(Some(Action::SendPadding { bypass: false, replace: false, timeout: ok, limit: Some(d) }), None));
                let limit = l.as_ref().map(|(_, s)| u64_class(s.machines[0].state_limit)).unwrap_or("none".into());
                let c = run(machine_with(None, Some(Counter { operation: Operation::Set, dist: Some(d), copy: false })));
                let counter = c.as_ref().map(|(_, s)| u64_class(s.machines[0].counter_a)).unwrap_or("none".into());
                writeln!(f, "{}", json!({"k": "clamp", "sig": "", "x": xn, "mx": mn, "real": real, "sample": class_of(sample),
                                         "timeout": timeout, "limit": limit, "counter": counter})).unwrap();
                n_clamp += 1;
                id += 1;
            }
        }
    }
    // (2) samplers at the corners admitted by validation
    let m = f64::MAX;
    let s = 5e-324;
    let inf = f64::INFINITY;
    let nan = f64::NAN;
    let fams: Vec<(&str, DistType)> = vec![
        ("Uniform", DistType::Uniform { low: 0.0, high: 0.0 }),
        ("Uniform", DistType::Uniform { low: 0.0, high: 1.0 }),
        ("Uniform", DistType::Uniform { low: -m / 2.0, high: m / 2.0 }),
        ("Uniform", DistType::Uniform { low: s, high: 1e-300 }),
        ("Uniform", DistType::Uniform { low: 1.0, high: 1.0 + f64::EPSILON }),
        ("Normal", DistType::Normal { mean: 0.0, stdev: 1.0 }),
        ("Normal", DistType::Normal { mean: nan, stdev: 1.0 }),
        ("Normal", DistType::Normal { mean: 1e308, stdev: 1e308 }),
        ("Normal", DistType::Normal { mean: inf, stdev: 0.0 }),
        ("Normal", DistType::Normal { mean: 0.0, stdev: -m }),
        ("SkewNormal", DistType::SkewNormal { location: 0.0, scale: 1.0, shape: 0.0 }),
        ("SkewNormal", DistType::SkewNormal { location: nan, scale: s, shape: m }),
        ("SkewNormal", DistType::SkewNormal { location: -inf, scale: m, shape: -m }),
        ("LogNormal", DistType::LogNormal { mu: 0.0, sigma: 1.0 }),
        ("LogNormal", DistType::LogNormal { mu: 700.0, sigma: 10.0 }),
        ("LogNormal", DistType::LogNormal { mu: nan, sigma: 0.0 }),
        ("LogNormal", DistType::LogNormal { mu: -inf, sigma: m }),
        ("Binomial", DistType::Binomial { trials: 0, probability: 0.5 }),
        ("Binomial", DistType::Binomial { trials: 1, probability: 1.0 }),
        ("Binomial", DistType::Binomial { trials: 1_000_000_000, probability: 1e-9 }),
        ("Binomial", DistType::Binomial { trials: 1_000_000_000, probability: 0.5 }),
        ("Binomial", DistType::Binomial { trials: 1_000_000_000, probability: 1.0 }),
        ("Binomial", DistType::Binomial { trials: 999_999_999, probability: 1.0 - 1e-9 }),
        ("Binomial", DistType::Binomial { trials: 10, probability: 0.0 }),
        ("Geometric", DistType::Geometric { probability: 1e-9 }),
        ("Geometric", DistType::Geometric { probability: 1.0 }),
        ("Geometric", DistType::Geometric { probability: 0.0 }),
        ("Geometric", DistType::Geometric { probability: 0.5 }),
        ("Geometric", DistType::Geometric { probability: 1.0 - f64::EPSILON / 2.0 }),
        ("Pareto", DistType::Pareto { scale: 1.0, shape: 1.0 }),
        ("Pareto", DistType::Pareto { scale: s, shape: s }),
        ("Pareto", DistType::Pareto { scale: m, shape: m }),
        ("Pareto", DistType::Pareto { scale: inf, shape: 1.0 }),
        ("Pareto", DistType::Pareto { scale: 1.0, shape: inf }),
        ("Poisson", DistType::Poisson { lambda: s }),
        ("Poisson", DistType::Poisson { lambda: 1.0 }),
        ("Poisson", DistType::Poisson { lambda: 12.0 }),
        ("Poisson", DistType::Poisson { lambda: 12.0 - 1e-12 }),
        ("Poisson", DistType::Poisson { lambda: 1e42 }),
        ("Poisson", DistType::Poisson { lambda: 1e15 }),
        ("Weibull", DistType::Weibull { scale: 1.0, shape: 1.0 }),
        ("Weibull", DistType::Weibull { scale: m, shape: s }),
        ("Weibull", DistType::Weibull { scale: inf, shape: inf }),
        ("Weibull", DistType::Weibull { scale: s, shape: m }),
        ("Gamma", DistType::Gamma { scale: 1.0, shape: 1.0 }),
        ("Gamma", DistType::Gamma { scale: 1.0, shape: 0.5 }),
        ("Gamma", DistType::Gamma { scale: m, shape: s }),
        ("Gamma", DistType::Gamma { scale: inf, shape: 1.0 }),
        ("Gamma", DistType::Gamma { scale: 1.0, shape: inf }),
        ("Gamma", DistType::Gamma { scale: s, shape: m }),
        ("Gamma", DistType::Gamma { scale: 2.0, shape: 1.0 / 3.0 }),
        ("Beta", DistType::Beta { alpha: 1.0, beta: 1.0 }),
        ("Beta", DistType::Beta { alpha: 0.5, beta: 0.5 }),
        ("Beta", DistType::Beta { alpha: s, beta: s }),
        ("Beta", DistType::Beta { alpha: m, beta: m }),
        ("Beta", DistType::Beta { alpha: inf, beta: inf }),
        ("Beta", DistType::Beta { alpha: s, beta: m }),
        ("Beta", DistType::Beta { alpha: 1e-3, beta: 1e3 }),
    ];
    let clamps: [(f64, f64); 9] = [(0.0, 0.0), (nan, 0.0), (0.0, nan), (inf, 1.0), (-inf, 0.0), (0.0, 1e-300), (-1e300, 1e300), (0.0, 5e-324), (5e-324, 1e-310)];
    let patterns: [u64; 5] = [0, u64::MAX, 0xAAAA_AAAA_AAAA_AAAA, 0x5555_5555_5555_5555, 0x0000_0000_FFFF_FFFF];
    let (mut n_sample, mut n_valid) = (0u64, 0u64);
    let mut hangs = 0u32;
    let mut hung: std::collections::HashSet<usize> = std::collections::HashSet::new();
    let (mut skipped_repeat, mut aborted) = (0u64, false);
    for (fi, (fam, dt)) in fams.iter().enumerate() {
        for (ci, (start, max)) in clamps.iter().enumerate() {
            let d = Dist::new(*dt, *start, *max);
            if d.validate().is_err() {
                continue;
            }
            n_valid += 1;
            writeln!(f, "{}", json!({"k": "reset", "id": id})).unwrap();
            id += 1;
            for si in 0..streams {
                let plen = [0usize, 1, 2, 4, 8][(si + fi + ci) % 5];
                let pat = patterns[(si * 7 + fi) % 5];
                let prefix: Vec<u64> = (0..plen).map(|j| if pat == 0x0000_0000_FFFF_FFFF { (j as u64) << 60 } else { pat }).collect();
                let desc = format!("{:?} start={:e} max={:e} prefix={}x{:#x}", dt, start, max, plen, pat);
                writeln!(f, "{}", json!({"k": "begin", "desc": desc})).unwrap();
                f.flush().unwrap();
                let first = prefix.first().copied();
                let umax_first = first.map(|w| (w >> 11) == (1u64 << 53) - 1).unwrap_or(false);
                // a distribution that already hung on an all-ones first word is not sampled on
                // such a stream again (every repetition would leave another spinning thread)
                if umax_first && hung.contains(&fi) {
                    skipped_repeat += 1;
                    continue;
                }
                if hangs >= 8 {
                    aborted = true;
                    break;
                }
                let rng = Stream { prefix, pos: 0, fair: Xoshiro256StarStar::seed_from_u64(seed.wrapping_add(si as u64)), words: 0 };
                let t0 = std::time::Instant::now();
                // the sample runs in its own thread: a sampler that never returns is data, not a stuck driver
                let dd = d;
                // 3 s of CPU time in the sampler (not of wall-clock time: the machine may be loaded)
                let got = match verif_harness::watchdog::run(move || {
                    let mut rng = rng;
                    let r = catch_unwind(AssertUnwindSafe(|| dd.sample(&mut rng)));
                    (r.ok(), rng.words)
                }, std::time::Duration::from_secs(3), std::time::Duration::from_secs(120)) {
                    verif_harness::watchdog::Outcome::Done(x) => Some(x),
                    verif_harness::watchdog::Outcome::Hang => None,
                    verif_harness::watchdog::Outcome::Starved => {
                        aborted = true;
                        break;
                    }
                };
                let ms = t0.elapsed().as_millis() as u64;
                let maxset = *max > 0.0;
                let (returned, hang, words, cls) = match got {
                    None => (false, true, 0u64, "hang".to_string()),
                    Some((None, w)) => (false, false, w, "panic".to_string()),
                    Some((Some(v), w)) => (true, false, w,
                        if v.is_nan() { "NaN".into() }
                        else if v < 0.0 { "neg".into() }
                        else if maxset && v > *max { "over".into() }
                        else if v == inf { "+inf".into() }
                        else { "ok".into() }),
                };
                if hang {
                    hangs += 1;
                    hung.insert(fi);
                }
                // discriminating facts for the known-findings file
                let sig = if hang {
                    match dt {
                        DistType::Binomial { trials, probability } => {
                            let q = if *probability <= 0.5 { *probability } else { 1.0 - *probability };
                            let umax = first.map(|w| (w >> 11) == (1u64 << 53) - 1).unwrap_or(false);
                            if (*trials as f64) * q < 10.0 && umax { "hang:Binomial:inversion-loop-at-u-max".to_string() }
                            else { "hang:Binomial:other".to_string() }
                        }
                        _ => format!("hang:{}", fam),
                    }
                } else { String::new() };
                writeln!(f, "{}", json!({"k": "sample", "fam": fam, "desc": desc, "maxset": maxset, "returned": returned,
                                         "panic": !returned && !hang, "hang": hang, "words": words, "ms": ms, "cls": cls, "sig": sig})).unwrap();
                n_sample += 1;
            }
        }
    }
    f.flush().unwrap();
    println!("{}", json!({"clamp_records": n_clamp, "validated_dists": n_valid, "sample_records": n_sample, "hangs": hangs,
                          "skipped_repeat_hang": skipped_repeat, "aborted": aborted}));
    // threads stuck in a sampler are abandoned
    std::process::exit(0);
}
