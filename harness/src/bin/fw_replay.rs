//! fw_replay <behaviours.ndjson> <out-dir>
//!
//! Replays every behaviour (one JSON array of lines per input line) on the
//! real framework. Writes
//!   <out-dir>/summary.json      counts, first divergences
//!   <out-dir>/diverged.ndjson   actual traces of behaviours that diverged
//!                               (reset-separated), for observer validation
//!   <out-dir>/sample.ndjson     actual traces of the first few behaviours
use serde_json::{json, Value};
use std::io::{BufRead, BufReader, Write};
use verif_harness::replay::replay;

fn main() {
    let args: Vec<String> = std::env::args().collect();
    if args.len() < 3 {
        eprintln!("usage: fw_replay <behaviours.ndjson> <out-dir>");
        std::process::exit(2);
    }
    std::panic::set_hook(Box::new(|_| {}));
    let f = std::fs::File::open(&args[1]).expect("open input");
    let out_dir = std::path::PathBuf::from(&args[2]);
    // --all: write the actual trace of every behaviour to sample.ndjson (for full trace validation)
    let sample_max: u64 = if args.iter().any(|a| a == "--all") { u64::MAX } else { 20 };
    std::fs::create_dir_all(&out_dir).unwrap();
    let mut diverged = std::fs::File::create(out_dir.join("diverged.ndjson")).unwrap();
    let mut sample = std::fs::File::create(out_dir.join("sample.ndjson")).unwrap();
    let mut n = 0u64;
    let mut ok = 0u64;
    let mut calls = 0u64;
    let mut transitions = 0u64;
    let mut n_div = 0u64;
    let mut n_panic = 0u64;
    let mut n_rng = 0u64;
    let mut first: Vec<Value> = vec![];
    let mut tool_errors: Vec<String> = vec![];
    for (idx, line) in BufReader::new(f).lines().enumerate() {
        let line = line.unwrap();
        if line.trim().is_empty() {
            continue;
        }
        let hist: Vec<Value> = match serde_json::from_str(&line) {
            Ok(v) => v,
            Err(e) => {
                tool_errors.push(format!("behaviour {idx}: {e}"));
                continue;
            }
        };
        n += 1;
        match replay(&hist) {
            Err(e) => tool_errors.push(format!("behaviour {idx}: {e}")),
            Ok(r) => {
                calls += r.calls as u64;
                transitions += r.transitions;
                let bad = r.mismatch.is_some() || r.panic.is_some() || r.rng_problem.is_some();
                if r.panic.is_some() {
                    n_panic += 1;
                }
                if r.rng_problem.is_some() {
                    n_rng += 1;
                }
                if bad {
                    n_div += 1;
                    if first.len() < 20 {
                        first.push(json!({"behaviour": idx, "mismatch": r.mismatch,
                                          "panic": r.panic, "rng": r.rng_problem,
                                          "expected": hist}));
                    }
                    if n_div <= 2000 {
                        writeln!(diverged, "{}", json!({"k": "reset", "id": idx})).unwrap();
                        for l in &r.actual {
                            writeln!(diverged, "{}", l).unwrap();
                        }
                    }
                } else {
                    ok += 1;
                }
                if n <= sample_max {
                    writeln!(sample, "{}", json!({"k": "reset", "id": idx})).unwrap();
                    for l in &r.actual {
                        writeln!(sample, "{}", l).unwrap();
                    }
                }
            }
        }
    }
    let summary = json!({
        "behaviours": n, "conform": ok, "diverged": n_div, "panics": n_panic,
        "rng_problems": n_rng, "calls": calls, "transitions": transitions,
        "first_divergences": first, "tool_errors": tool_errors});
    std::fs::write(
        out_dir.join("summary.json"),
        serde_json::to_string_pretty(&summary).unwrap(),
    )
    .unwrap();
    println!(
        "fw_replay: behaviours={n} conform={ok} diverged={n_div} panics={n_panic} rng_problems={n_rng} tool_errors={}",
        tool_errors.len()
    );
    if !tool_errors.is_empty() {
        std::process::exit(2);
    }
}
