//! sim_driver --seed S --scenarios N --out trace.ndjson [--no-machines] [--max-packets P]
//!
//! Seeded driver for the simulator (C14-C19). Per scenario: a random
//! time-sorted trace, network delay, optional pps limit, 0-2 random machines
//! per side, fractions, stop settings. Runs sim_advanced with hooks on and
//! records every processed event (with the private flags), every action the
//! frameworks returned, pick_next decisions, the returned trace; then the same
//! run again (reproducibility), the three filtered runs (projections), a run
//! with a trace-length bound, and for machine-less scenarios the plain `sim`.
//! All times are micro-seconds of trace time (0 = first line of the trace).
use maybenot::{Machine, TriggerAction, TriggerEvent};
use maybenot_simulator::network::Network;
use maybenot_simulator::verif::{self, Rec};
use maybenot_simulator::{parse_trace, sim, sim_advanced, SimEvent, SimulatorArgs};
use rand::Rng;
use serde_json::{json, Value};
use std::io::Write;
use std::panic::{catch_unwind, AssertUnwindSafe};
use std::time::{Duration, Instant};
use verif_harness::gen::*;
use verif_harness::model::*;
use verif_harness::render::panic_msg;

fn arg(args: &[String], name: &str) -> Option<String> {
    args.iter()
        .position(|a| a == name)
        .and_then(|i| args.get(i + 1).cloned())
}

/// time unit of the scenario being run, in micro-seconds: scenarios of the large-time family are
/// written in coarser units (minutes) so that real times lie beyond 2^32 us while the numbers
/// given to TLC stay small; SimObs only compares and adds times, it is invariant under the scaling
static UNIT: std::sync::atomic::AtomicI64 = std::sync::atomic::AtomicI64::new(1);
fn unit() -> i64 {
    UNIT.load(std::sync::atomic::Ordering::Relaxed)
}

struct Clock {
    base: Instant,
    offset_us: i64,
    subus: std::cell::Cell<bool>,
    /// large-time family only: a time that is not a whole number of units was met while rendering
    /// the current record (every input is on the grid and the simulator only adds, subtracts and
    /// compares times, so a correct run stays on it); the value is floored and the record marked
    og: std::cell::Cell<bool>,
}
impl Clock {
    fn us(&self, t: Instant) -> i64 {
        let d = t.duration_since(self.base);
        if d.subsec_nanos() % 1000 != 0 {
            self.subus.set(true);
        }
        let raw = d.as_micros() as i64;
        if raw % unit() != 0 {
            self.og.set(true);
        }
        let us = raw / unit() + self.offset_us;
        // TLC integers are 32 bit: runs that reach beyond 10^9 units are skipped as well
        if us.abs() > 1_000_000_000 {
            self.subus.set(true);
        }
        us
    }
}
fn dur_us(d: Duration, c: &Clock) -> i64 {
    if d.subsec_nanos() % 1000 != 0 || d.as_micros() as i64 / unit() > 1_000_000_000 {
        c.subus.set(true);
    }
    if d.as_micros() as i64 % unit() != 0 {
        c.og.set(true);
    }
    d.as_micros() as i64 / unit()
}

fn ev_fields(e: &TriggerEvent) -> (&'static str, i64) {
    match e {
        TriggerEvent::NormalRecv => ("NormalRecv", -1),
        TriggerEvent::PaddingRecv => ("PaddingRecv", -1),
        TriggerEvent::TunnelRecv => ("TunnelRecv", -1),
        TriggerEvent::NormalSent => ("NormalSent", -1),
        TriggerEvent::PaddingSent { machine } => ("PaddingSent", machine.into_raw() as i64),
        TriggerEvent::TunnelSent => ("TunnelSent", -1),
        TriggerEvent::BlockingBegin { machine } => ("BlockingBegin", machine.into_raw() as i64),
        TriggerEvent::BlockingEnd => ("BlockingEnd", -1),
        TriggerEvent::TimerBegin { machine } => ("TimerBegin", machine.into_raw() as i64),
        TriggerEvent::TimerEnd { machine } => ("TimerEnd", machine.into_raw() as i64),
    }
}

fn out_event(e: &SimEvent, c: &Clock) -> Value {
    let (name, m) = ev_fields(&e.event);
    json!({"c": e.client, "e": name, "m": m, "t": c.us(e.time), "p": e.contains_padding})
}

fn act_json(a: &TriggerAction, c: &Clock) -> Value {
    match a {
        TriggerAction::Cancel { machine, timer } => json!({
            "kind": "Cancel", "m": machine.into_raw(), "bypass": false, "replace": false,
            "timer": format!("{:?}", timer), "timeout": 0, "duration": 0}),
        TriggerAction::SendPadding { timeout, bypass, replace, machine } => json!({
            "kind": "SendPadding", "m": machine.into_raw(), "bypass": bypass, "replace": replace,
            "timer": "-", "timeout": dur_us(*timeout, c), "duration": 0}),
        TriggerAction::BlockOutgoing { timeout, duration, bypass, replace, machine } => json!({
            "kind": "BlockOutgoing", "m": machine.into_raw(), "bypass": bypass, "replace": replace,
            "timer": "-", "timeout": dur_us(*timeout, c), "duration": dur_us(*duration, c)}),
        TriggerAction::UpdateTimer { duration, replace, machine } => json!({
            "kind": "UpdateTimer", "m": machine.into_raw(), "bypass": false, "replace": replace,
            "timer": "-", "timeout": 0, "duration": dur_us(*duration, c)}),
    }
}

fn rec_json(r: &Rec, c: &Clock) -> Value {
    c.og.set(false);
    let mut v = rec_json0(r, c);
    if c.og.replace(false) {
        v["og"] = json!(true);
    }
    v
}

fn rec_json0(r: &Rec, c: &Clock) -> Value {
    match r {
        Rec::Event { event, bypass, replace } => {
            let (name, m) = ev_fields(&event.event);
            json!({"k": "ev", "c": event.client, "e": name, "m": m, "t": c.us(event.time),
                   "p": event.contains_padding, "bp": bypass, "rp": replace})
        }
        Rec::Action { client, action, time } => {
            json!({"k": "act", "c": client, "t": c.us(*time), "a": act_json(action, c),
                   "fa": verif_harness::render::act_json(action)})
        }
        Rec::Fired { client, machine, time, what } => {
            json!({"k": "fired", "c": client, "m": machine, "t": c.us(*time), "w": what})
        }
        Rec::Framework { client, time, event, steps, snapshot } => {
            // the embedded framework's own hook lines, in the format of Framework.tla
            let mut g = verif_harness::render::Gaps::default();
            let lines: Vec<Value> = steps.iter().filter_map(|r| verif_harness::render::render(r, &mut g)).collect();
            let snap = verif_harness::render::snap_json(snapshot, &mut g);
            let exact = snapshot.blocking_duration.subsec_nanos() % 1000 == 0;
            json!({"k": "fw", "c": client, "t": time.duration_since(c.base).as_micros() as u64,
                   "ev": verif_harness::render::trigger_json(event), "lines": lines, "snap": snap,
                   "gaps": g.0, "exact": exact && time.duration_since(c.base).subsec_nanos() % 1000 == 0})
        }
        Rec::Pick { what, client } => json!({"k": "pick", "w": what, "c": client}),
        Rec::BlockSet { client, until, bypassable, updated } => json!({
            "k": "blk", "c": client, "until": until.map(|u| c.us(u)).unwrap_or(-1),
            "set": until.is_some(), "bypassable": bypassable, "updated": updated}),
        Rec::Replaced { client, requeued } => json!({"k": "repl", "c": client, "requeued": requeued}),
        Rec::RecvScheduled { client, time, padding } => {
            json!({"k": "recv", "c": client, "t": c.us(*time), "p": padding})
        }
        Rec::AggregatePushed { client, delay } => {
            json!({"k": "agg", "c": client, "d": dur_us(*delay, c)})
        }
        Rec::AggregatePopped { client, delay } => {
            json!({"k": "aggpop", "c": client, "d": dur_us(*delay, c)})
        }
        Rec::Exit { reason, iterations, trace_len } => {
            json!({"k": "exit", "reason": reason, "it": iterations, "len": trace_len})
        }
    }
}

/// machines for the simulator: durations that matter within the trace
fn sim_machine(r: &mut GRng) -> MMachine {
    let mut m = gen_machine(r, false);
    for s in m.states.iter_mut() {
        for d in [&mut s.action.timeout, &mut s.action.duration] {
            if !d.is_none() {
                *d = MDist::constant(*[0i64, 0, 1, 3, 10, 50, 200, 1000, 5000, 30000]
                    .get(r.gen_range(0..10))
                    .unwrap());
            }
        }
        for d in [&mut s.action.limit, &mut s.ca.dist, &mut s.cb.dist] {
            if d.vals.contains(&HUGE) {
                *d = MDist::constant(3);
            }
        }
    }
    m.allowedPad = *[0i64, 1, 5, 1000, -1].get(r.gen_range(0..5)).unwrap();
    m.allowedBlock = *[0i64, 100, 5000, -1].get(r.gen_range(0..4)).unwrap();
    m
}

fn one_shot(action: MAction, on: &[&str], limit_loop: bool) -> MMachine {
    // state 0 waits for a trigger, state 1 carries the action and re-arms on the same triggers
    let mut t0 = std::collections::BTreeMap::new();
    let mut t1 = std::collections::BTreeMap::new();
    for e in on {
        t0.insert(e.to_string(), vec![(1i64, 16u32)]);
        t1.insert(e.to_string(), vec![(if limit_loop { 1 } else { 0 }, 16u32)]);
    }
    MMachine {
        allowedPad: -1,
        padFrac: (0, 1),
        allowedBlock: -1,
        blockFrac: (0, 1),
        states: vec![
            MState { action: MAction::none(), ca: MCtr::none(), cb: MCtr::none(), trans: t0 },
            MState { action, ca: MCtr::none(), cb: MCtr::none(), trans: t1 },
        ],
    }
}

/// two states with the same action, every trigger leads to the other one: acts on every trigger
fn ping_pong(action: MAction, on: &[&str], allowed_pad: i64) -> MMachine {
    let mut t0 = std::collections::BTreeMap::new();
    let mut t1 = std::collections::BTreeMap::new();
    for e in on {
        t0.insert(e.to_string(), vec![(1i64, 16u32)]);
        t1.insert(e.to_string(), vec![(0i64, 16u32)]);
    }
    MMachine {
        allowedPad: allowed_pad,
        padFrac: (1, 100),
        allowedBlock: -1,
        blockFrac: (0, 1),
        states: vec![
            MState { action: action.clone(), ca: MCtr::none(), cb: MCtr::none(), trans: t0 },
            MState { action, ca: MCtr::none(), cb: MCtr::none(), trans: t1 },
        ],
    }
}

/// templates that make blocking periods overlap and padding meet them
fn blocking_mix(r: &mut GRng) -> Vec<MMachine> {
    let mut v = Vec::new();
    let nb = r.gen_range(1..=2);
    for _ in 0..nb {
        let mut a = MAction::none();
        a.kind = "BlockOutgoing".into();
        a.bypass = r.gen();
        a.replace = r.gen();
        a.timeout = MDist::constant(*[0i64, 10, 20, 40].get(r.gen_range(0..4)).unwrap());
        a.duration = MDist::constant(*[0i64, 50, 200, 300, 1000].get(r.gen_range(0..5)).unwrap());
        let trig: &[&str] = if r.gen_bool(0.5) { &["NormalSent"] } else { &["NormalSent", "BlockingBegin", "NormalRecv"] };
        v.push(one_shot(a, trig, r.gen_bool(0.5)));
    }
    let mut p = MAction::none();
    p.kind = "SendPadding".into();
    p.bypass = r.gen_bool(0.7);
    p.replace = r.gen_bool(0.4);
    p.timeout = MDist::constant(*[0i64, 5, 30, 60, 100, 250].get(r.gen_range(0..6)).unwrap());
    let trig: &[&str] = if r.gen_bool(0.5) { &["NormalSent", "BlockingBegin"] } else { &["BlockingBegin", "PaddingSent", "NormalRecv"] };
    v.push(one_shot(p, trig, true));
    if r.gen_bool(0.3) {
        let mut t = MAction::none();
        t.kind = "UpdateTimer".into();
        t.replace = r.gen();
        t.duration = MDist::constant(*[0i64, 7, 70].get(r.gen_range(0..3)).unwrap());
        v.push(one_shot(t, &["NormalSent", "TimerEnd", "BlockingEnd"], true));
    }
    v
}

/// the machine with its times (timeouts, durations, blocking budget) multiplied by the unit
fn scale_mm(m: &MMachine, u: i64) -> MMachine {
    let mut m = m.clone();
    if u == 1 {
        return m;
    }
    if m.allowedBlock > 0 {
        m.allowedBlock *= u;
    }
    for s in m.states.iter_mut() {
        for d in [&mut s.action.timeout, &mut s.action.duration] {
            for v in d.vals.iter_mut() {
                if *v != HUGE {
                    *v *= u;
                }
            }
        }
    }
    m
}

#[derive(Clone)]
struct Scenario {
    unit: i64,
    trace: Vec<(i64, bool)>, // (time us, client sent?)
    delay_us: u64,
    pps: Option<usize>,
    mc: Vec<MMachine>,
    ms: Vec<MMachine>,
    fracs: [(i64, i64); 4],
    seed: u64,
    cont: bool,
    max_it: usize,
    mtl: usize,
}

/// the trace in the simulator's text format, using every spelling parse_trace accepts: "s" / "sn"
/// and "r" / "rn", an optional third column, blanks around the time stamp, empty lines, and
/// lines of padding packets ("sp" / "rp"), which are not part of the base trace
fn trace_string(t: &[(i64, bool)]) -> String {
    let mut out: Vec<String> = Vec::new();
    for (i, (us, s)) in t.iter().enumerate() {
        let ns = us * unit() * 1000;
        let dir = match (*s, i % 5 == 1) {
            (true, false) => "s",
            (true, true) => "sn",
            (false, false) => "r",
            (false, true) => "rn",
        };
        let mut l = if i % 11 == 3 { format!(" {} ,{}", ns, dir) } else { format!("{},{}", ns, dir) };
        if i % 7 == 2 {
            l.push_str(",1500");
        }
        out.push(l);
        if i % 13 == 4 {
            out.push(format!("{},{}", ns, if i % 2 == 0 { "sp" } else { "rp" }));
        }
        if i % 17 == 5 {
            out.push(String::new());
        }
    }
    out.join("\n")
}

fn run(
    sc: &Scenario,
    mc: &[Machine],
    ms: &[Machine],
    oc: bool,
    ona: bool,
    mtl: usize,
    hooks: bool,
) -> Result<(Vec<Value>, Vec<Value>, bool), String> {
    let network = Network::new(Duration::from_micros(sc.delay_us * unit() as u64), sc.pps);
    let mut sq = parse_trace(&trace_string(&sc.trace), network);
    let base = sq.get_first_time().ok_or("empty queue")?;
    let offset = sc
        .trace
        .iter()
        .map(|(t, s)| if *s { *t } else { *t - sc.delay_us as i64 })
        .min()
        .unwrap();
    let clock = Clock {
        base,
        offset_us: offset,
        subus: std::cell::Cell::new(false),
        og: std::cell::Cell::new(false),
    };
    let mut args = SimulatorArgs::new(network, mtl, ona);
    args.only_client_events = oc;
    args.max_sim_iterations = sc.max_it;
    args.continue_after_all_normal_packets_processed = sc.cont;
    args.max_padding_frac_client = frac(sc.fracs[0]);
    args.max_blocking_frac_client = frac(sc.fracs[1]);
    args.max_padding_frac_server = frac(sc.fracs[2]);
    args.max_blocking_frac_server = frac(sc.fracs[3]);
    args.insecure_rng_seed = Some(sc.seed);
    // the simulation runs in its own thread (the hook log is thread-local): a run that
    // never returns is recorded as a hang instead of stalling the driver
    let (mc, ms) = (mc.to_vec(), ms.to_vec());
    let (r, recs) = match verif_harness::watchdog::run(move || {
        if hooks {
            verif::enable();
        }
        let r = catch_unwind(AssertUnwindSafe(|| sim_advanced(&mc, &ms, &mut sq, &args)));
        let recs = verif::take();
        verif::disable();
        (r.map_err(panic_msg), recs)
    }, Duration::from_secs(20), Duration::from_secs(600)) {
        verif_harness::watchdog::Outcome::Done(x) => x,
        // 20 s of CPU time (not wall-clock time) inside one simulation
        verif_harness::watchdog::Outcome::Hang => return Err("HANG: sim_advanced did not return within 20 s of CPU time".to_string()),
        verif_harness::watchdog::Outcome::Starved => {
            eprintln!("sim_driver: a simulation got no CPU for 600 s; giving up");
            std::process::exit(2);
        }
    };
    if unit() > 1 {
        // the bottleneck's extra delay (a fraction of its one-second window) is legitimately off
        // the grid of minutes: such runs are left to their copies in micro-seconds
        let mut last: Option<Instant> = None;
        for r in &recs {
            match r {
                Rec::Event { event, .. } => last = Some(event.time),
                Rec::RecvScheduled { time, .. } => {
                    if let Some(l) = last {
                        if time.duration_since(l) != network.delay {
                            clock.subus.set(true);
                        }
                    }
                }
                _ => {}
            }
        }
    }
    let lines: Vec<Value> = recs.iter().map(|r| rec_json(r, &clock)).collect();
    // accumulated aggregate delays shift base times that may never be logged: keep them in range too
    let agg_total: i64 = lines.iter().filter(|l| l["k"] == "aggpop").map(|l| l["d"].as_i64().unwrap_or(0)).sum();
    if agg_total > 500_000_000 {
        clock.subus.set(true);
    }
    match r {
        Ok(trace) => {
            let out: Vec<Value> = trace.iter().map(|e| out_event(e, &clock)).collect();
            Ok((lines, out, clock.subus.get()))
        }
        Err(e) => Err(e),
    }
}

fn random_scenario(g: &mut GRng, id: u64, seed: u64, max_packets: usize, no_machines: bool) -> Scenario {
        // trace
        let np = g.gen_range(1..=max_packets);
        let mut t = 0i64;
        let mut trace = Vec::new();
        if no_machines && g.gen_range(0..4) == 0 {
            // steady two-way traffic: both sides send periodically for several seconds, so that no 100 ms
            // window of either direction holds more than one or two packets while every second holds many
            // of both directions together
            let pc = *[110_000i64, 150_000, 200_000, 300_000].get(g.gen_range(0..4)).unwrap();
            let ps = *[110_000i64, 150_000, 170_000, 250_000].get(g.gen_range(0..4)).unwrap();
            let off = g.gen_range(0..100_000i64);
            let dur = g.gen_range(2_000_000..5_000_000i64);
            let mut v: Vec<(i64, bool)> = Vec::new();
            let mut x = 0i64;
            while x < dur { v.push((x, true)); x += pc; }
            let mut y = off;
            while y < dur { v.push((y, false)); y += ps; }
            v.sort();
            trace = v;
        } else if g.gen_range(0..3) == 0 {
            // structured: bursts of one direction (identical or near-identical timestamps),
            // separated by long gaps, other-direction packets in between, a late straggler
            let nb = g.gen_range(1..=3);
            for b in 0..nb {
                let dir = g.gen_bool(0.5);
                let n = g.gen_range(2..=max_packets.max(4) / 2 + 10);
                for _ in 0..n {
                    t += *[0i64, 0, 0, 0, 1, 50].get(g.gen_range(0..6)).unwrap();
                    trace.push((t, dir));
                }
                t += *[100i64, 100_000, 300_000, 1_200_000].get(g.gen_range(0..4)).unwrap();
                for _ in 0..g.gen_range(0..3) {
                    trace.push((t, !dir));
                    t += *[0i64, 10, 150_000].get(g.gen_range(0..3)).unwrap();
                }
                if b + 1 == nb {
                    t += *[0i64, 1_000, 2_000_000, 3_000_000].get(g.gen_range(0..4)).unwrap();
                    trace.push((t, dir));
                }
            }
        } else {
        for i in 0..np {
            if i > 0 {
                t += *[0i64, 0, 0, 1, 10, 100, 1000, 1000, 50_000, 1_000_000]
                    .get(g.gen_range(0..10))
                    .unwrap();
            }
            trace.push((t, g.gen_bool(0.5)));
        }
        }
        let delay_us = *[0u64, 0, 1, 10, 1000, 10_000, 50_000].get(g.gen_range(0..7)).unwrap();
        let pps = if !no_machines && g.gen_range(0..8) == 0 {
            // limits >= 1, including values at and beyond the 32-bit boundary
            Some(*[1usize, 10, 100, 1000, 1000, u32::MAX as usize, 1usize << 32, usize::MAX]
                .get(g.gen_range(0..8))
                .unwrap())
        } else {
            None
        };
        let gen_side = |g: &mut GRng| -> Vec<MMachine> {
            if no_machines {
                return vec![];
            }
            if g.gen_range(0..3) == 0 {
                let mut v = blocking_mix(g);
                // now and then next to further machines
                if g.gen_range(0..3) == 0 {
                    let m = sim_machine(g);
                    if m.to_machine().is_ok() {
                        v.insert(g.gen_range(0..=v.len()), m);
                    }
                }
                return v;
            }
            let n = *[0usize, 1, 1, 2, 2, 3, 5].get(g.gen_range(0..7)).unwrap();
            let mut v = Vec::new();
            while v.len() < n {
                let m = sim_machine(g);
                if m.to_machine().is_ok() {
                    v.push(m);
                }
            }
            v
        };
        let mc = gen_side(g);
        let ms = gen_side(g);
        let trace_len = trace.len();
        let sc = Scenario {
            unit: 1,
            trace,
            delay_us,
            pps,
            fracs: if no_machines { [(0, 1); 4] } else { [gen_frac(g), gen_frac(g), gen_frac(g), gen_frac(g)] },
            // all seeds, including the corners of the u64 range
            seed: if g.gen_range(0..3) == 0 {
                *[u64::MAX, u64::MAX, u64::MAX, 0u64, u64::MAX - 1, 1u64 << 63].get(g.gen_range(0..6)).unwrap()
            } else {
                seed.wrapping_mul(31).wrapping_add(id)
            },
            cont: g.gen_bool(0.4),
            // the iteration bound must not cut a run short of its own trace (4 events per packet)
            max_it: *[400usize, 2000].get(g.gen_range(0..2)).unwrap() + 6 * trace_len,
            mtl: *[1usize, 7, 50].get(g.gen_range(0..3)).unwrap(),
            mc,
            ms,
        };
        sc
}

fn mk_pad(bypass: bool, replace: bool, timeout: i64) -> MAction {
    let mut p = MAction::none();
    p.kind = "SendPadding".into();
    p.bypass = bypass;
    p.replace = replace;
    p.timeout = MDist::constant(timeout);
    p
}
fn mk_block(bypass: bool, replace: bool, timeout: i64, duration: i64) -> MAction {
    let mut a = MAction::none();
    a.kind = "BlockOutgoing".into();
    a.bypass = bypass;
    a.replace = replace;
    a.timeout = MDist::constant(timeout);
    a.duration = MDist::constant(duration);
    a
}
fn mk_timer(replace: bool, duration: i64) -> MAction {
    let mut t = MAction::none();
    t.kind = "UpdateTimer".into();
    t.replace = replace;
    t.duration = MDist::constant(duration);
    t
}

/// small-scope enumeration of machine templates on the real simulator: every
/// combination of flags / timeouts / durations of one or two blocking
/// machines and a padding machine, and of two or three timer machines, on
/// short traces, on either side, with and without continuing after the last
/// normal packet
/// returns the scenarios and the index ranges of the families that are always run completely
/// (small families whose hits are few: sub-sampling them would make detection a matter of luck)
fn directed(seed: u64) -> (Vec<Scenario>, Vec<std::ops::Range<usize>>) {
    let mut v = Vec::new();
    let mut always: Vec<std::ops::Range<usize>> = Vec::new();
    let traces: [&[i64]; 4] = [&[0], &[0, 20], &[0, 20, 40], &[0, 0, 500]];
    let bools = [false, true];
    let mut push = |machines: Vec<MMachine>, tr: &[i64], client: bool, cont: bool, delay: u64| -> usize {
        let id = v.len() as u64;
        v.push(Scenario {
            unit: 1,
            trace: tr.iter().map(|t| (*t + if client { 0 } else { delay as i64 }, client)).collect(),
            delay_us: delay,
            pps: None,
            mc: if client { machines.clone() } else { vec![] },
            ms: if client { vec![] } else { machines },
            fracs: [(0, 1); 4],
            seed: seed.wrapping_add(id),
            cont,
            max_it: 300,
            mtl: 7,
        });
        id as usize
    };
    for bb in bools {
        for br in bools {
            for pb in bools {
                for pr in bools {
                    for bt in [0i64, 10] {
                        for bd in [0i64, 50, 300] {
                            for pt in [5i64, 30, 100] {
                                for (ti, tr) in traces.iter().enumerate() {
                                    for cont in bools {
                                        let client = (ti + bt as usize + pt as usize) % 2 == 0;
                                        let ms = vec![
                                            one_shot(mk_block(bb, br, bt, bd), &["NormalSent"], false),
                                            one_shot(mk_pad(pb, pr, pt), &["NormalSent", "BlockingBegin"], true),
                                        ];
                                        push(ms, tr, client, cont, 10);
                                    }
                                }
                            }
                        }
                    }
                }
            }
        }
    }
    // two blocking machines with coinciding or overlapping periods and a bypass padding
    for b1 in bools {
        for b2 in bools {
            for r2 in bools {
                for (t1, d1, t2, d2) in [(10i64, 200i64, 20i64, 300i64), (10, 200, 10, 50), (0, 100, 100, 100), (10, 300, 20, 0)] {
                    for pt in [5i64, 60, 150] {
                        for client in bools {
                            let ms = vec![
                                one_shot(mk_block(b1, false, t1, d1), &["NormalSent"], false),
                                one_shot(mk_block(b2, r2, t2, d2), &["NormalSent"], false),
                                one_shot(mk_pad(true, pt == 60, pt), &["NormalSent", "BlockingBegin"], true),
                            ];
                            push(ms, &[0, 30], client, true, 1000);
                        }
                    }
                }
            }
        }
    }
    // small-domain coincidences: two blocking machines and a bypass padding with every timeout and
    // duration in 0..3 us, so that expiries coincide exactly, periods abut, and the padding falls
    // before, on and after each boundary
    for b1 in bools {
        for b2 in bools {
            for r2 in bools {
                for pr in bools {
                    for d1 in [2i64, 3] {
                        for t2 in [0i64, 1, 2] {
                            for d2 in [0i64, 1, 2, 3] {
                                for pt in [0i64, 1, 2, 3] {
                                    let client = (d1 + t2 + d2 + pt) % 2 == 0;
                                    let ms = vec![
                                        one_shot(mk_block(b1, false, 0, d1), &["NormalSent"], false),
                                        one_shot(mk_block(b2, r2, t2, d2), &["NormalSent"], false),
                                        one_shot(mk_pad(true, pr, pt), &["NormalSent"], false),
                                    ];
                                    push(ms, &[0], client, true, 5);
                                }
                            }
                        }
                    }
                }
            }
        }
    }
    // the same with wider gaps and equal expiries (t1 + d1 = t2 + d2)
    for b1 in bools {
        for b2 in bools {
            for r2 in bools {
                for (t1, d1, t2, d2) in [(0i64, 100i64, 40i64, 60i64), (10, 200, 20, 190), (0, 100, 100, 0), (0, 60, 40, 20)] {
                    for pt in [30i64, 60, 100, 101] {
                        for client in bools {
                            let ms = vec![
                                one_shot(mk_block(b1, false, t1, d1), &["NormalSent"], false),
                                one_shot(mk_block(b2, r2, t2, d2), &["NormalSent"], false),
                                one_shot(mk_pad(true, false, pt), &["NormalSent"], false),
                            ];
                            push(ms, &[0], client, true, 1000);
                        }
                    }
                }
            }
        }
    }
    // repeated padding against one blocking period: a blocker and a machine that pads on every
    // packet, padding and blocking event (a few paddings in all), so that several paddings with
    // each flag combination meet the same buffered packets
    let (mut lo, mut hi) = (usize::MAX, 0usize);
    for bb in bools {
        for pb in bools {
            for pr in bools {
                for pt in [0i64, 1, 3, 5, 9] {
                    for bd in [50i64, 300] {
                        for (ti, tr) in [&[0i64, 2, 4][..], &[0, 3, 6, 9], &[0, 1, 2, 3], &[0, 20, 40], &[0, 0, 30, 31]].iter().enumerate() {
                            for client in bools {
                                let ms = vec![
                                    one_shot(mk_block(bb, false, 0, bd), &["NormalSent"], false),
                                    ping_pong(mk_pad(pb, pr, pt), &["NormalSent", "PaddingSent", "BlockingBegin"], 3 + ti as i64),
                                ];
                                let idx = push(ms, tr, client, ti % 2 == 0, 10);
                                lo = lo.min(idx);
                                hi = hi.max(idx + 1);
                            }
                        }
                    }
                }
            }
        }
    }
    always.push(lo..hi);
    // timer machines whose expiries coincide, restart, or are cancelled
    for r1 in bools {
        for r2 in bools {
            for (d1, d2, d3) in [(7i64, 7i64, 70i64), (0, 0, 7), (70, 7, 0), (7, 70, 70)] {
                for third in bools {
                    for client in bools {
                        let mut ms = vec![
                            one_shot(mk_timer(r1, d1), &["NormalSent", "TimerEnd"], true),
                            one_shot(mk_timer(r2, d2), &["NormalSent"], true),
                        ];
                        if third {
                            ms.push(one_shot(mk_timer(false, d3), &["NormalSent", "TimerBegin"], true));
                        } else {
                            let mut c = MAction::none();
                            c.kind = "Cancel".into();
                            c.timer = "Internal".into();
                            ms.push(one_shot(c, &["TunnelSent"], true));
                        }
                        push(ms, &[0, 20, 20], client, true, 10);
                    }
                }
            }
        }
    }
    // machines on both sides: a bypassable block at the client, a non-bypassable block and a
    // bypass padding at the server (and the mirror image)
    for cb in bools {
        for sb in bools {
            for pr in bools {
                for cd in [50i64, 300] {
                    for pt in [5i64, 30, 100] {
                        for mirror in bools {
                            let a = vec![one_shot(mk_block(cb, false, 0, cd), &["NormalSent", "NormalRecv"], false)];
                            let b = vec![
                                one_shot(mk_block(sb, false, 10, 300), &["NormalSent"], false),
                                one_shot(mk_pad(true, pr, pt), &["NormalSent", "BlockingBegin"], true),
                            ];
                            let id = v.len() as u64;
                            v.push(Scenario {
                                unit: 1,
                                trace: vec![(0, true), (10, false), (30, !mirror), (40, mirror)],
                                delay_us: 10,
                                pps: None,
                                mc: if mirror { b.clone() } else { a.clone() },
                                ms: if mirror { a } else { b },
                                fracs: [(0, 1); 4],
                                seed: seed.wrapping_add(id),
                                cont: true,
                                max_it: 300,
                                mtl: 7,
                            });
                        }
                    }
                }
            }
        }
    }
    (v, always)
}

/// a machine that answers the j-th event delivered to it with acts[j] (behaviours generated by TLC
/// from Simulator.tla: the oracle's answers become machines): a chain of states, every event
/// leads on to the next state, whose action is the scripted answer; no limits, no budgets
fn chain_machine(acts: &[Value]) -> MMachine {
    let act_of = |a: &Value| -> MAction {
        let mut m = MAction::none();
        let kind = a["kind"].as_str().unwrap_or("None");
        if kind == "None" {
            return m;
        }
        m.kind = kind.to_string();
        m.bypass = a["bypass"].as_bool().unwrap_or(false);
        m.replace = a["replace"].as_bool().unwrap_or(false);
        m.timer = a["timer"].as_str().unwrap_or("-").to_string();
        if kind == "SendPadding" || kind == "BlockOutgoing" {
            m.timeout = MDist::constant(a["timeout"].as_i64().unwrap_or(0));
        }
        if kind == "BlockOutgoing" || kind == "UpdateTimer" {
            m.duration = MDist::constant(a["duration"].as_i64().unwrap_or(0));
        }
        m
    };
    let n = acts.len();
    let mut states = Vec::new();
    for j in 0..=n {
        let mut trans = std::collections::BTreeMap::new();
        if j < n {
            for e in EXT.iter() {
                trans.insert(e.to_string(), vec![((j + 1) as i64, 16u32)]);
            }
        }
        states.push(MState {
            action: if j == 0 { MAction::none() } else { act_of(&acts[j - 1]) },
            ca: MCtr::none(),
            cb: MCtr::none(),
            trans,
        });
    }
    MMachine { allowedPad: -1, padFrac: (0, 1), allowedBlock: -1, blockFrac: (0, 1), states }
}

fn scripted(path: &str, seed: u64) -> Vec<Scenario> {
    use std::io::BufRead;
    let mut v = Vec::new();
    for (i, line) in std::io::BufReader::new(std::fs::File::open(path).expect("scripts")).lines().enumerate() {
        let line = line.unwrap();
        if line.trim().is_empty() {
            continue;
        }
        let sc: Value = serde_json::from_str(&line).expect("script");
        let side = |k: &str| -> Vec<MMachine> {
            sc[k].as_array().map(|ms| ms.iter().map(|a| chain_machine(a.as_array().unwrap())).collect()).unwrap_or_default()
        };
        v.push(Scenario {
            unit: 1,
            trace: sc["trace"].as_array().unwrap().iter().map(|x| (x["t"].as_i64().unwrap(), x["s"].as_bool().unwrap())).collect(),
            delay_us: sc["delay"].as_u64().unwrap(),
            pps: None,
            mc: side("mc"),
            ms: side("ms"),
            fracs: [(0, 1); 4],
            seed: seed.wrapping_add(i as u64),
            cont: sc["cont"].as_bool().unwrap_or(true),
            max_it: 400,
            mtl: 7,
        });
    }
    v
}

/// bursts far beyond any small fixed-size count (2^15, 2^16): n packets at one instant, no
/// machines; the returned traces are recorded run-length encoded (`outrle` lines)
fn burst_lines(id: u64, n: usize, delay_us: u64, tail: bool) -> Vec<Value> {
    let mut runs: Vec<(i64, bool, usize)> = vec![(0, true, n)];
    if tail {
        runs.push((0, false, n / 2 + 1));
        runs.push((7, true, 3));
        runs.push((2_000_000, false, 2));
    }
    let mut trace: Vec<(i64, bool)> = Vec::new();
    for (t, s, k) in &runs {
        for _ in 0..*k {
            trace.push((*t + if *s { 0 } else { delay_us as i64 }, *s));
        }
    }
    trace.sort_by_key(|x| x.0);
    let start = trace.iter().map(|(t, s)| if *s { *t } else { *t - delay_us as i64 }).min().unwrap();
    let mut lines = vec![
        json!({"k": "reset", "id": id}),
        json!({"k": "sim", "delay": delay_us, "pps": -1,
               "trace": runs.iter().map(|(t, s, k)| json!({"t": t + if *s { 0 } else { delay_us as i64 }, "s": s, "n": k})).collect::<Vec<_>>(),
               "nc": 0, "ns": 0, "mc": [], "ms": [], "cont": false, "max_it": 0, "seed": 1, "start": start}),
    ];
    // distinct events with their multiplicities, in order of first appearance
    let rle = |o: &[SimEvent], clock: &Clock| -> Vec<Value> {
        let mut idx: std::collections::HashMap<String, usize> = std::collections::HashMap::new();
        let mut out: Vec<(Value, u64)> = Vec::new();
        for e in o {
            let v = out_event(e, clock);
            let key = v.to_string();
            match idx.get(&key) {
                Some(i) => out[*i].1 += 1,
                None => {
                    idx.insert(key, out.len());
                    out.push((v, 1));
                }
            }
        }
        out.into_iter().map(|(mut v, k)| { v["n"] = json!(k); v }).collect()
    };
    for (api, ona, oc) in [("advanced", false, false), ("advanced", true, true), ("simple", false, false), ("simple", true, false)] {
        let network = Network::new(Duration::from_micros(delay_us), None);
        let mut sq = parse_trace(&trace_string(&trace), network);
        let clock = Clock { base: sq.get_first_time().unwrap(), offset_us: start, subus: std::cell::Cell::new(false), og: std::cell::Cell::new(false) };
        let r = verif_harness::watchdog::run(move || {
            let r = catch_unwind(AssertUnwindSafe(|| {
                if api == "simple" {
                    sim(&[], &[], &mut sq, network.delay, 0, ona)
                } else {
                    let mut a = SimulatorArgs::new(network, 0, ona);
                    a.only_client_events = oc;
                    a.insecure_rng_seed = Some(1);
                    sim_advanced(&[], &[], &mut sq, &a)
                }
            }));
            r.map_err(panic_msg)
        }, Duration::from_secs(120), Duration::from_secs(1200));
        match r {
            verif_harness::watchdog::Outcome::Done(Ok(o)) => lines.push(json!({"k": "outrle", "api": api, "ona": ona, "oc": oc, "total": o.len(), "runs": rle(&o, &clock),
                                                                         "sorted": o.windows(2).all(|w| w[0].time <= w[1].time)})),
            verif_harness::watchdog::Outcome::Done(Err(p)) => lines.push(json!({"k": "panic", "msg": p})),
            verif_harness::watchdog::Outcome::Hang => lines.push(json!({"k": "panic", "msg": "HANG: simulation of a burst did not return within 120 s of CPU time"})),
            verif_harness::watchdog::Outcome::Starved => std::process::exit(2),
        }
    }
    lines
}

fn main() {
    let args: Vec<String> = std::env::args().collect();
    let seed: u64 = arg(&args, "--seed").and_then(|s| s.parse().ok()).unwrap_or(1);
    let scenarios: u64 = arg(&args, "--scenarios").and_then(|s| s.parse().ok()).unwrap_or(100);
    let max_packets: usize = arg(&args, "--max-packets").and_then(|s| s.parse().ok()).unwrap_or(30);
    let out = arg(&args, "--out").expect("--out");
    let no_machines = args.iter().any(|a| a == "--no-machines");
    // --directed K: also run every K-th scenario of the enumerated template families (light runs)
    let stride: usize = arg(&args, "--directed").and_then(|s| s.parse().ok()).unwrap_or(0);
    std::panic::set_hook(Box::new(|_| {}));
    let mut f = std::io::BufWriter::new(std::fs::File::create(&out).unwrap());
    let mut g = grng(seed ^ 0x51b);
    let (mut n_ev, mut n_act, mut n_panic, mut n_subus, mut n_written) = (0u64, 0u64, 0u64, 0u64, 0u64);
    let mut list: Vec<(Scenario, bool)> = Vec::new();
    for id in 0..scenarios {
        list.push((random_scenario(&mut g, id, seed, max_packets, no_machines), false));
    }
    // --scripts FILE: scenarios generated by TLC from Simulator.tla (light runs)
    let mut n_scripted = 0u64;
    if let Some(path) = arg(&args, "--scripts") {
        for sc in scripted(&path, seed) {
            list.push((sc, true));
            n_scripted += 1;
        }
    }
    let mut n_directed = 0u64;
    if stride > 0 {
        let (dir, always) = directed(seed);
        for (i, sc) in dir.into_iter().enumerate() {
            // hash-based sub-sampling (a plain stride would align with the innermost loops)
            let h = (i as u64).wrapping_mul(0x9E37_79B9_7F4A_7C15).wrapping_add(seed.wrapping_mul(0x51_7CC1)) >> 33;
            if h % stride as u64 == 0 || always.iter().any(|r| r.contains(&i)) {
                list.push((sc, true));
                n_directed += 1;
            }
        }
    }
    // the large-time family: copies of every 6th scenario written in minutes, so that the real run
    // lies beyond 2^32 us (71.6 min) while every time stays a whole number of units
    let mut n_scaled = 0u64;
    if !args.iter().any(|a| a == "--no-scaled") {
        let copies: Vec<(Scenario, bool)> = list
            .iter()
            .enumerate()
            .filter(|(i, (sc, _))| i % 6 == 3 && sc.pps.is_none())
            .map(|(_, (sc, light))| {
                let mut c = sc.clone();
                c.unit = 60_000_000;
                (c, *light)
            })
            .collect();
        n_scaled = copies.len() as u64;
        list.extend(copies);
    }
    let mut n_hang = 0u64;
    let mut n_fw = 0u64;
    let mut n_mech = 0u64;
    // --mech-out: the fired / ev / act / exit records of the runs SimMech models completely
    let mut mech_out = arg(&args, "--mech-out").map(|p| std::io::BufWriter::new(std::fs::File::create(p).unwrap()));
    // --fw-out: also write the embedded frameworks' traces (composition with Framework.tla)
    let mut fw_out = arg(&args, "--fw-out").map(|p| std::io::BufWriter::new(std::fs::File::create(p).unwrap()));
    for (id, (sc, light)) in list.into_iter().enumerate() {
        let id = id as u64;
        if n_hang >= 4 {
            break; // each hang leaves a spinning thread behind
        }
        let light = light;
        UNIT.store(sc.unit, std::sync::atomic::Ordering::Relaxed);
        let rmc: Vec<Machine> = sc.mc.iter().map(|m| scale_mm(m, sc.unit).to_machine_unchecked()).collect();
        let rms: Vec<Machine> = sc.ms.iter().map(|m| scale_mm(m, sc.unit).to_machine_unchecked()).collect();
        let mut lines = vec![
            json!({"k": "reset", "id": id}),
            json!({"k": "sim", "delay": sc.delay_us, "pps": sc.pps.map(|p| p as i64).unwrap_or(-1),
                   "trace": sc.trace.iter().map(|(t, s)| json!({"t": t, "s": s})).collect::<Vec<_>>(),
                   "nc": sc.mc.len(), "ns": sc.ms.len(),
                   "mc": serde_json::to_value(&sc.mc).unwrap(), "ms": serde_json::to_value(&sc.ms).unwrap(),
                   "cont": sc.cont, "max_it": sc.max_it, "seed": sc.seed, "unit": sc.unit,
                   "start": sc.trace.iter().map(|(t, s)| if *s { *t } else { *t - sc.delay_us as i64 }).min().unwrap()}),
        ];
        let mut subus = false;
        match run(&sc, &rmc, &rms, false, false, 0, true) {
            Err(p) => {
                lines.push(json!({"k": "panic", "msg": p}));
                n_panic += 1;
            }
            Ok((hook, full, sub)) => {
                subus |= sub;
                n_ev += hook.iter().filter(|l| l["k"] == "ev").count() as u64;
                n_act += hook.iter().filter(|l| l["k"] == "act").count() as u64;
                if let Some(fwf) = fw_out.as_mut().filter(|_| !sub && sc.unit == 1) {
                    // per side: the embedded framework's calls as a FrameworkTrace scenario
                    for client in [true, false] {
                        let ms = if client { &sc.mc } else { &sc.ms };
                        if ms.is_empty() {
                            continue;
                        }
                        // blocking shares are f64 divisions of std::time durations in this setting:
                        // only sides without blocking fractions are compared with the exact model
                        if sc.fracs[if client { 1 } else { 3 }].0 != 0 || ms.iter().any(|m| m.blockFrac.0 != 0) {
                            continue;
                        }
                        let conf = MConf {
                            M: ms.clone(),
                            fwPad: sc.fracs[if client { 0 } else { 2 }],
                            fwBlk: sc.fracs[if client { 1 } else { 3 }],
                        };
                        let limits: Vec<i64> = ms
                            .iter()
                            .map(|m| {
                                let a = &m.states[0].action;
                                if a.kind == "None" { 0 } else if a.has_limit() { a.limit.vals.first().copied().unwrap_or(-1) } else { -1 }
                            })
                            .collect();
                        let mut out = vec![json!({"k": "reset", "id": id * 2 + client as u64}),
                                           json!({"k": "new", "C": serde_json::to_value(&conf).unwrap(), "limits": limits})];
                        let mut acts: Vec<Value> = vec![];
                        let mut ok = true;
                        for h in hook.iter() {
                            if h["k"] == "act" && h["c"] == client {
                                acts.push(h["fa"].clone());
                            }
                            if h["k"] == "fw" && h["c"] == client {
                                ok &= h["exact"].as_bool().unwrap_or(false) && h["gaps"] == 0;
                                out.push(json!({"k": "call", "t": h["t"], "evs": [h["ev"]]}));
                                out.extend(h["lines"].as_array().unwrap().iter().cloned());
                                out.push(json!({"k": "ret", "acts": acts, "snap": h["snap"]}));
                                acts = vec![];
                            }
                        }
                        if ok {
                            for l in &out {
                                writeln!(fwf, "{}", l).unwrap();
                            }
                            n_fw += 1;
                        }
                    }
                }
                // (limits beyond 10^6 packets per second are outside the integer range of the mechanism's window model)
                if let Some(mf) = mech_out.as_mut().filter(|_| !sub && sc.unit == 1 && sc.pps.map_or(true, |p| p <= 1_000_000)) {
                    // mechanism view: the records SimMech emits (fired ev act exit agg aggpop recv)
                    {
                        writeln!(mf, "{}", lines[0]).unwrap();
                        writeln!(mf, "{}", lines[1]).unwrap();
                        for h in hook.iter() {
                            let k = h["k"].as_str().unwrap_or("");
                            if ["fired", "ev", "exit", "agg", "aggpop", "recv", "repl"].contains(&k) {
                                writeln!(mf, "{}", h).unwrap();
                            } else if k == "act" {
                                let mut a = h.clone();
                                a.as_object_mut().unwrap().remove("fa");
                                writeln!(mf, "{}", a).unwrap();
                            }
                        }
                        n_mech += 1;
                    }
                }
                lines.extend(hook.into_iter().filter(|h| h["k"] != "fw"));
                lines.push(json!({"k": "out", "evs": full}));
                // the same run again: reproducible?
                if !light {
                match run(&sc, &rmc, &rms, false, false, 0, false) {
                    Err(p) => lines.push(json!({"k": "panic", "msg": p})),
                    Ok((_, again, _)) => lines.push(json!({"k": "rerun", "same": again == full})),
                }
                // filters are projections
                for (oc, ona) in [(true, false), (false, true), (true, true)] {
                    match run(&sc, &rmc, &rms, oc, ona, 0, false) {
                        Err(p) => lines.push(json!({"k": "panic", "msg": p})),
                        Ok((_, o, _)) => lines.push(json!({"k": "filtered", "oc": oc, "ona": ona, "evs": o})),
                    }
                }
                // bounded run
                match run(&sc, &rmc, &rms, false, false, sc.mtl, true) {
                    Err(p) => lines.push(json!({"k": "panic", "msg": p})),
                    Ok((hook, o, _)) => {
                        let ex = hook.iter().rev().find(|l| l["k"] == "exit").cloned().unwrap_or(json!({}));
                        lines.push(json!({"k": "bounded", "mtl": sc.mtl, "len": o.len(),
                                          "max_it": sc.max_it, "it": ex["it"], "sorted":
                                          o.windows(2).all(|w| w[0]["t"].as_i64() <= w[1]["t"].as_i64())}));
                    }
                }
                }
                // machine-less: the simple entry point too
                if !light && sc.mc.is_empty() && sc.ms.is_empty() && sc.pps.is_none() {
                    for ona in [false, true] {
                        let network = Network::new(Duration::from_micros(sc.delay_us * unit() as u64), None);
                        let mut sq = parse_trace(&trace_string(&sc.trace), network);
                        let base = sq.get_first_time().unwrap();
                        let clock = Clock {
                            base,
                            offset_us: sc.trace.iter().map(|(t, s)| if *s { *t } else { *t - sc.delay_us as i64 }).min().unwrap(),
                            subus: std::cell::Cell::new(false),
        og: std::cell::Cell::new(false),
                        };
                        let r = catch_unwind(AssertUnwindSafe(|| sim(&[], &[], &mut sq, network.delay, 0, ona)));
                        match r {
                            Err(p) => lines.push(json!({"k": "panic", "msg": panic_msg(p)})),
                            Ok(o) => lines.push(json!({"k": "simple", "ona": ona,
                                                       "evs": o.iter().map(|e| out_event(e, &clock)).collect::<Vec<_>>()})),
                        }
                    }
                }
            }
        }
        n_hang += lines
            .iter()
            .filter(|l| l["k"] == "panic" && l["msg"].as_str().map(|m| m.starts_with("HANG")).unwrap_or(false))
            .count() as u64;
        if subus {
            n_subus += 1;
            continue;
        }
        for l in &lines {
            writeln!(f, "{}", l).unwrap();
        }
        n_written += 1;
    }
    UNIT.store(1, std::sync::atomic::Ordering::Relaxed);
    // --burst N: machine-less bursts of N (and a few more sizes) packets at one instant
    let mut n_burst = 0u64;
    if let Some(nb) = arg(&args, "--burst").and_then(|s| s.parse::<usize>().ok()) {
        let mut id = 10_000_000u64;
        for (n, delay, tail) in [(nb, 0u64, false), (nb, 10, true), (nb / 2 + 1, 1000, true), (40, 10, true)] {
            for l in burst_lines(id, n, delay, tail) {
                writeln!(f, "{}", l).unwrap();
            }
            id += 1;
            n_burst += 1;
            n_written += 1;
        }
    }
    f.flush().unwrap();
    if let Some(fwf) = fw_out.as_mut() {
        fwf.flush().unwrap();
    }
    if let Some(mf) = mech_out.as_mut() {
        mf.flush().unwrap();
    }
    println!(
        "{}",
        json!({"scenarios": scenarios, "written": n_written, "events": n_ev, "actions": n_act,
               "panics": n_panic, "sub_microsecond_skipped": n_subus, "directed": n_directed, "hangs": n_hang, "framework_traces": n_fw, "mechanism_traces": n_mech, "bursts": n_burst, "large_time_copies": n_scaled, "scripted": n_scripted})
    );
    // threads stuck in a simulation are abandoned
    std::process::exit(0);
}
