//! ffi_driver --seed S --scenarios N --calls K --out recs.ndjson
//!
//! C20: drives the real `extern "C"` functions of maybenot-ffi next to a Rust
//! `Framework` over the same deterministic machines and records every call
//! (arguments by class, result code, count written, actions on both sides,
//! canaries around the output buffer, heap bytes held) for FfiTrace.tla.
use maybenot::{Framework, Machine, MachineId, Timer, TriggerAction, TriggerEvent};
use maybenot_ffi::*;
use rand::Rng;
use serde_json::{json, Value};
use std::alloc::{GlobalAlloc, Layout, System};
use std::ffi::CString;
use std::io::Write;
use std::mem::MaybeUninit;
use std::str::FromStr;
use std::sync::atomic::{AtomicI64, Ordering};
use std::time::Instant;
use verif_harness::gen::*;

struct Counting;
static LIVE: AtomicI64 = AtomicI64::new(0);
unsafe impl GlobalAlloc for Counting {
    unsafe fn alloc(&self, l: Layout) -> *mut u8 {
        LIVE.fetch_add(l.size() as i64, Ordering::Relaxed);
        System.alloc(l)
    }
    unsafe fn dealloc(&self, p: *mut u8, l: Layout) {
        LIVE.fetch_sub(l.size() as i64, Ordering::Relaxed);
        System.dealloc(p, l)
    }
    unsafe fn realloc(&self, p: *mut u8, l: Layout, new: usize) -> *mut u8 {
        LIVE.fetch_add(new as i64 - l.size() as i64, Ordering::Relaxed);
        System.realloc(p, l, new)
    }
}
#[global_allocator]
static A: Counting = Counting;
fn live() -> i64 {
    LIVE.load(Ordering::Relaxed)
}

fn arg(args: &[String], name: &str) -> Option<String> {
    args.iter()
        .position(|a| a == name)
        .and_then(|i| args.get(i + 1).cloned())
}

fn dur(d: std::time::Duration) -> Value {
    json!([d.as_secs(), d.subsec_micros()])
}
fn fdur(d: MaybenotDuration) -> Value {
    json!({"secs": d.secs, "nanos": d.nanos})
}
const Z: [u64; 2] = [0, 0];

fn ref_json(a: &TriggerAction) -> Value {
    match a {
        TriggerAction::Cancel { machine, timer } => json!({
            "kind": "Cancel", "m": machine.into_raw(), "bypass": false, "replace": false,
            "timer": match timer { Timer::Action => "Action", Timer::Internal => "Internal", Timer::All => "All" },
            "timeout": Z, "duration": Z}),
        TriggerAction::SendPadding { timeout, bypass, replace, machine } => json!({
            "kind": "SendPadding", "m": machine.into_raw(), "bypass": bypass, "replace": replace,
            "timer": "-", "timeout": dur(*timeout), "duration": Z}),
        TriggerAction::BlockOutgoing { timeout, duration, bypass, replace, machine } => json!({
            "kind": "BlockOutgoing", "m": machine.into_raw(), "bypass": bypass, "replace": replace,
            "timer": "-", "timeout": dur(*timeout), "duration": dur(*duration)}),
        TriggerAction::UpdateTimer { duration, replace, machine } => json!({
            "kind": "UpdateTimer", "m": machine.into_raw(), "bypass": false, "replace": replace,
            "timer": "-", "timeout": Z, "duration": dur(*duration)}),
    }
}

fn ffi_json(a: &MaybenotAction) -> Value {
    let z = json!({"secs": 0, "nanos": 0});
    match *a {
        MaybenotAction::Cancel { machine, timer } => json!({
            "kind": "Cancel", "m": machine, "bypass": false, "replace": false,
            "timer": match timer { MaybenotTimer::Action => "Action", MaybenotTimer::Internal => "Internal", MaybenotTimer::All => "All" },
            "timeout": z, "duration": z}),
        MaybenotAction::SendPadding { machine, timeout, replace, bypass } => json!({
            "kind": "SendPadding", "m": machine, "bypass": bypass, "replace": replace,
            "timer": "-", "timeout": fdur(timeout), "duration": z}),
        MaybenotAction::BlockOutgoing { machine, timeout, replace, bypass, duration } => json!({
            "kind": "BlockOutgoing", "m": machine, "bypass": bypass, "replace": replace,
            "timer": "-", "timeout": fdur(timeout), "duration": fdur(duration)}),
        MaybenotAction::UpdateTimer { machine, duration, replace } => json!({
            "kind": "UpdateTimer", "m": machine, "bypass": false, "replace": replace,
            "timer": "-", "timeout": z, "duration": fdur(duration)}),
    }
}

fn ev_type(i: usize) -> MaybenotEventType {
    match i {
        0 => MaybenotEventType::NormalRecv,
        1 => MaybenotEventType::PaddingRecv,
        2 => MaybenotEventType::TunnelRecv,
        3 => MaybenotEventType::NormalSent,
        4 => MaybenotEventType::PaddingSent,
        5 => MaybenotEventType::TunnelSent,
        6 => MaybenotEventType::BlockingBegin,
        7 => MaybenotEventType::BlockingEnd,
        8 => MaybenotEventType::TimerBegin,
        _ => MaybenotEventType::TimerEnd,
    }
}
fn trig(i: usize, m: usize) -> TriggerEvent {
    let machine = MachineId::from_raw(m);
    match i {
        0 => TriggerEvent::NormalRecv,
        1 => TriggerEvent::PaddingRecv,
        2 => TriggerEvent::TunnelRecv,
        3 => TriggerEvent::NormalSent,
        4 => TriggerEvent::PaddingSent { machine },
        5 => TriggerEvent::TunnelSent,
        6 => TriggerEvent::BlockingBegin { machine },
        7 => TriggerEvent::BlockingEnd,
        8 => TriggerEvent::TimerBegin { machine },
        _ => TriggerEvent::TimerEnd { machine },
    }
}

const CANARY: u8 = 0xA5;

fn main() {
    let args: Vec<String> = std::env::args().collect();
    let seed: u64 = arg(&args, "--seed").and_then(|s| s.parse().ok()).unwrap_or(1);
    let scenarios: u64 = arg(&args, "--scenarios").and_then(|s| s.parse().ok()).unwrap_or(100);
    let calls: usize = arg(&args, "--calls").and_then(|s| s.parse().ok()).unwrap_or(30);
    let out = arg(&args, "--out").expect("--out");
    let mut f = std::io::BufWriter::new(std::fs::File::create(&out).unwrap());
    let mut g = grng(seed ^ 0xff1);
    let (mut n_start, mut n_events, mut n_actions) = (0u64, 0u64, 0u64);
    let asz = std::mem::size_of::<MaybenotAction>();
    for sc in 0..scenarios {
        writeln!(f, "{}", json!({"k": "reset", "id": sc})).unwrap();
        // machines: deterministic, budgets unlimited, no fractions => time and RNG cannot matter
        let n = g.gen_range(0..=4usize);
        let mut machines: Vec<Machine> = Vec::new();
        while machines.len() < n {
            let mut m = gen_det_machine(&mut g);
            // padding budgets and fractions depend on counts only; blocking limits depend on
            // time and stay unlimited
            m.allowedPad = *[-1i64, 0, 0, 1, 3].get(g.gen_range(0..5)).unwrap();
            m.allowedBlock = -1;
            m.padFrac = gen_frac(&mut g);
            m.blockFrac = (0, 1);
            if let Ok(mm) = m.to_machine() {
                machines.push(mm);
            }
        }
        let mut lines: Vec<String> = machines.iter().map(|m| m.serialize()).collect();
        // argument class of this start
        let class = g.gen_range(0..12);
        let out_null = class == 0;
        let not_utf8 = class == 1;
        let bad_machine = class == 2 || class == 3;
        let bad_frac = class == 4 || class == 5;
        if bad_machine {
            let junk = ["02zzzz", "", "nonsense", "01abcdef"][g.gen_range(0..4)].to_string();
            let at = g.gen_range(0..=lines.len());
            lines.insert(at, junk);
        }
        let joined = lines.join("\n");
        let mut bytes = joined.clone().into_bytes();
        if not_utf8 {
            bytes.insert(0, 0xff);
        }
        let (pad, blk) = if bad_frac {
            [(f64::NAN, 0.0), (0.0, -0.5), (1.5, 0.0), (0.0, f64::INFINITY)][g.gen_range(0..4)]
        } else {
            [(0.0, 0.0), (1.0, 0.0), (0.5, 0.0), (0.25, 0.0), (0.125, 0.0)][g.gen_range(0..5)]
        };
        // what the Rust API says about the same input
        let rust_machines: Result<Vec<Machine>, _> = if not_utf8 {
            Err(())
        } else {
            joined.lines()
                .map(|l| Machine::from_str(l).map_err(|_| ())).collect()
        };
        let machines_ok = rust_machines.is_ok();
        let reference = rust_machines.ok().and_then(|ms| {
            Framework::new(ms, pad, blk, Instant::now(), rand::rngs::mock::StepRng::new(7, 11)).ok()
        });
        let frac_ok = !machines_ok || reference.is_some();
        let cstr = CString::new(bytes).unwrap();
        let mut handle: MaybeUninit<*mut MaybenotFramework> = MaybeUninit::new(std::ptr::null_mut());
        let before = live();
        let code = unsafe {
            maybenot_start(
                cstr.as_ptr(),
                pad,
                blk,
                if out_null { std::ptr::null_mut() } else { &mut handle },
            )
        } as u32;
        let after_start = live();
        n_start += 1;
        writeln!(
            f,
            "{}",
            json!({"k": "start", "outNull": out_null, "utf8": !not_utf8, "machinesOk": machines_ok,
                   "fracOk": frac_ok, "n": n, "code": code, "held": after_start - before})
        )
        .unwrap();
        if code != 0 {
            continue;
        }
        let this = unsafe { handle.assume_init() };
        let Some(mut reference) = reference else {
            // the C API accepted what the Rust API rejects: recorded above (fracOk / machinesOk false, code 0)
            unsafe { maybenot_stop(this) };
            continue;
        };
        let nm = unsafe { maybenot_num_machines(this) };
        writeln!(f, "{}", json!({"k": "num", "got": nm, "n": reference.num_machines()})).unwrap();
        let mut grown = 0i64;
        for _ in 0..calls {
            let len = g.gen_range(0..=4usize);
            let evs: Vec<(usize, usize)> = (0..len)
                .map(|_| {
                    let m = match g.gen_range(0..10) {
                        0 => usize::MAX,
                        1 => nm,
                        2 => nm + 1,
                        _ => {
                            if nm == 0 { 0 } else { g.gen_range(0..nm) }
                        }
                    };
                    (g.gen_range(0..10usize), m)
                })
                .collect();
            let cevs: Vec<MaybenotEvent> = evs
                .iter()
                .map(|(e, m)| MaybenotEvent { event_type: ev_type(*e), machine: *m })
                .collect();
            let nulls = g.gen_range(0..25);
            let (this_null, events_null, actions_null, count_null) =
                (nulls == 0, nulls == 1, nulls == 2, nulls == 3);
            // output buffer: nm slots between two canary slots, all bytes CANARY
            let mut buf: Vec<u8> = vec![CANARY; (nm + 2) * asz];
            let base = unsafe { buf.as_mut_ptr().add(asz) } as *mut MaybeUninit<MaybenotAction>;
            let mut count: usize = usize::MAX;
            let evp = if cevs.is_empty() { std::ptr::NonNull::<MaybenotEvent>::dangling().as_ptr() as *const _ } else { cevs.as_ptr() };
            let b = live();
            let code = unsafe {
                maybenot_on_events(
                    if this_null { std::ptr::null_mut() } else { this },
                    if events_null { std::ptr::null() } else { evp },
                    cevs.len(),
                    if actions_null { std::ptr::null_mut() } else { base },
                    if count_null { std::ptr::null_mut() } else { &mut count },
                )
            } as u32;
            grown += live() - b;
            n_events += 1;
            let any_null = this_null || events_null || actions_null || count_null;
            let mut got: Vec<Value> = vec![];
            let mut refs: Vec<Value> = vec![];
            if !any_null {
                // the reference sees the same batch
                let tev: Vec<TriggerEvent> = evs.iter().map(|(e, m)| trig(*e, *m)).collect();
                refs = reference.trigger_events(&tev, Instant::now()).map(ref_json).collect();
                if code == 0 && count <= nm {
                    for i in 0..count {
                        let a = unsafe { (*base.add(i)).assume_init_ref() };
                        got.push(ffi_json(a));
                    }
                }
            }
            n_actions += got.len() as u64;
            let written_upto = if code == 0 && count <= nm { count } else { 0 };
            let canary = buf[..asz].iter().all(|x| *x == CANARY)
                && buf[(nm + 1) * asz..].iter().all(|x| *x == CANARY);
            let untouched = buf[(1 + written_upto) * asz..(nm + 1) * asz].iter().all(|x| *x == CANARY);
            writeln!(
                f,
                "{}",
                json!({"k": "events", "thisNull": this_null, "eventsNull": events_null,
                       "actionsNull": actions_null, "countNull": count_null, "code": code,
                       "count": if count == usize::MAX { -1 } else { count as i64 }, "n": nm,
                       "ref": refs, "got": got, "canary": canary, "untouched": untouched})
            )
            .unwrap();
        }
        let before_stop = live();
        unsafe { maybenot_stop(this) };
        let after_stop = live();
        writeln!(
            f,
            "{}",
            json!({"k": "stop", "leak": (after_start - before) + grown - (before_stop - after_stop)})
        )
        .unwrap();
    }
    f.flush().unwrap();
    println!("{}", json!({"scenarios": scenarios, "starts": n_start, "on_events": n_events, "actions": n_actions}));
}
