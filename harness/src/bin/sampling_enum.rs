//! sampling_enum --out recs.ndjson [--extra N] [--seed S]
//!
//! C06: complete enumeration of State::sample_state over every value the
//! uniform draw can take (all 2^23 values of the top bits of the 32-bit word),
//! for a list of validated probability vectors. No statistics: every draw is
//! made once and counted.
use enum_map::enum_map;
use maybenot::constants::{STATE_END, STATE_SIGNAL};
use maybenot::event::Event;
use maybenot::state::{State, Trans};
use rand::Rng;
use rand_core::{impls, Error, RngCore};
use serde_json::json;
use std::io::Write;
use verif_harness::gen::grng;

const R: u32 = 1 << 23;

struct Counting {
    k: u32,
    low: u32,
    calls: u64,
    wide: u64,
}
impl RngCore for Counting {
    fn next_u32(&mut self) -> u32 {
        self.calls += 1;
        (self.k << 9) | (self.low & 0x1ff)
    }
    fn next_u64(&mut self) -> u64 {
        self.wide += 1;
        self.next_u32() as u64
    }
    fn fill_bytes(&mut self, dest: &mut [u8]) {
        impls::fill_bytes_via_next(self, dest)
    }
    fn try_fill_bytes(&mut self, dest: &mut [u8]) -> Result<(), Error> {
        self.fill_bytes(dest);
        Ok(())
    }
}

fn arg(args: &[String], name: &str) -> Option<String> {
    args.iter()
        .position(|a| a == name)
        .and_then(|i| args.get(i + 1).cloned())
}

fn main() {
    let args: Vec<String> = std::env::args().collect();
    let out = arg(&args, "--out").expect("--out");
    let extra: usize = arg(&args, "--extra").and_then(|s| s.parse().ok()).unwrap_or(0);
    let seed: u64 = arg(&args, "--seed").and_then(|s| s.parse().ok()).unwrap_or(1);
    let t = |k: i32| 2f32.powi(k);
    let e = STATE_END;
    let s = STATE_SIGNAL;
    let mut vecs: Vec<Vec<(usize, f32)>> = vec![
        vec![],
        vec![(0, 1.0)],
        vec![(1, 0.5)],
        vec![(0, 0.5), (1, 0.5)],
        vec![(2, 0.25), (0, 0.5)],
        vec![(0, 0.25), (1, 0.25), (2, 0.25)],
        vec![(0, t(-23))],
        vec![(0, 1.0 - t(-23))],
        vec![(0, 0.5), (1, t(-23))],
        vec![(0, 0.125), (1, 0.375), (2, 0.5)],
        vec![(0, t(-23)), (1, t(-23)), (2, t(-23))],
        vec![(0, 0.75), (e, 0.25)],
        vec![(s, 0.5), (e, 0.5)],
        vec![(s, 1.0)],
        vec![(e, t(-10)), (s, t(-12)), (3, t(-1))],
        // not representable at the resolution of the draw
        vec![(0, 0.1), (1, 0.2), (2, 0.7)],
        vec![(0, 1.0 / 3.0), (1, 1.0 / 3.0)],
        vec![(0, 1.0 - t(-24))],
        vec![(0, f32::from_bits(1))],
        vec![(0, 0.3), (1, 0.3), (s, 0.3)],
        vec![(0, 0.999_999_9)],
        vec![(0, 1e-10), (1, 0.5)],
        vec![(0, t(-24)), (1, t(-24))],
        vec![(e, 0.6), (s, 0.4)],
        // probabilities below the resolution of the draw (2^-23)
        vec![(0, t(-24))],
        vec![(1, t(-30))],
        vec![(0, t(-24)), (1, t(-24)), (2, 0.5)],
        vec![(0, t(-25)), (1, t(-25)), (2, t(-24)), (3, 0.5)],
        vec![(0, t(-24)), (1, t(-24)), (2, t(-24)), (3, t(-24)), (e, t(-24)), (s, t(-24))],
        vec![(s, 3.0 * t(-25)), (0, 0.25)],
        vec![(0, 0.5), (1, t(-24)), (2, t(-24))],
        vec![(e, t(-24)), (0, 1.0 - t(-23))],
    ];
    let mut g = grng(seed);
    for i in 0..extra {
        let n = g.gen_range(1..=4usize);
        let mut left = 1.0f32;
        let mut v = Vec::new();
        let pool = [0usize, 1, 2, 3, e, s];
        for j in 0..n {
            let p: f32 = if i % 2 == 0 {
                // dyadic with up to 23 fractional bits
                (g.gen_range(1..=(R >> (j + 1))) as f32) / R as f32
            } else if i % 4 == 1 {
                // multiples of 2^-26: finer than the draw, small and large
                let num = if g.gen_bool(0.5) { g.gen_range(1..=24u32) } else { g.gen_range(1..=(1u32 << (25 - j))) };
                (num as f32) / (1u32 << 26) as f32
            } else {
                g.gen::<f32>() * left * 0.9
            };
            if p <= 0.0 || p > left {
                break;
            }
            left -= p;
            v.push((pool[(j + i) % pool.len()], p));
        }
        vecs.push(v);
    }
    let mut f = std::io::BufWriter::new(std::fs::File::create(&out).unwrap());
    let mut written = 0;
    for (id, v) in vecs.iter().enumerate() {
        let st = State::new(enum_map! {
            Event::NormalSent => v.iter().map(|(t, p)| Trans(*t, *p)).collect::<Vec<_>>(),
            _ => vec![],
        });
        if st.validate(4).is_err() {
            continue; // only validated vectors are in scope
        }
        let n = v.len();
        let mut count = vec![0u32; n];
        let mut first = vec![0u32; n];
        let mut last = vec![0u32; n];
        let mut none = 0u32;
        let mut rng = Counting {
            k: 0,
            low: (seed as u32).wrapping_mul(2654435761),
            calls: 0,
            wide: 0,
        };
        for k in 0..R {
            rng.k = k;
            rng.low = rng.low.wrapping_add(0x9e37);
            match st.sample_state(Event::NormalSent, &mut rng) {
                None => none += 1,
                Some(t) => {
                    let i = v.iter().position(|x| x.0 == t).expect("target not in vector");
                    if count[i] == 0 {
                        first[i] = k;
                    }
                    count[i] += 1;
                    last[i] = k;
                }
            }
        }
        // an event without transitions never draws and never moves
        let mut rng2 = Counting {
            k: 0,
            low: 0,
            calls: 0,
            wide: 0,
        };
        let other = st.sample_state(Event::TunnelRecv, &mut rng2);
        let scaled: Vec<f64> = v.iter().map(|x| x.1 as f64 * R as f64).collect();
        let dyadic = scaled.iter().all(|x| x.fract() == 0.0);
        // exact: every probability a multiple of 2^-30 and every f32 partial sum exact
        let unit = (1u64 << 30) as f64;
        let mut exact = v.iter().all(|x| (x.1 as f64 * unit).fract() == 0.0);
        let mut c30: Vec<i64> = Vec::new();
        let (mut sum32, mut sum64) = (0.0f32, 0.0f64);
        for x in v.iter() {
            sum32 += x.1;
            sum64 += x.1 as f64;
            if sum32 as f64 != sum64 {
                exact = false;
            }
            c30.push((sum64 * unit) as i64);
        }
        if !exact {
            c30 = vec![0; n];
        }
        writeln!(
            f,
            "{}",
            json!({
                "k": "vec", "id": id, "n": n, "R": R, "dyadic": dyadic, "exact": exact, "c": c30,
                "certain": n == 1 && v[0].1 == 1.0,
                "p": v.iter().map(|x| format!("{:e}", x.1)).collect::<Vec<_>>(),
                "targets": v.iter().map(|x| verif_harness::model::target_code(x.0)).collect::<Vec<_>>(),
                "w": scaled.iter().map(|x| x.floor() as i64).collect::<Vec<_>>(),
                "lo": scaled.iter().map(|x| x.floor() as i64).collect::<Vec<_>>(),
                "hi": scaled.iter().map(|x| x.ceil() as i64).collect::<Vec<_>>(),
                "count": count, "first": first, "last": last, "none": none,
                "calls": rng.calls + rng.wide,
                "other_event_moved": other.is_some(), "other_event_calls": rng2.calls + rng2.wide})
        )
        .unwrap();
        written += 1;
    }
    // chained draws: a transition taken inside a transition (CounterZero raised by entering the target)
    // makes its own draw; on a G x G grid of (first word, second word) the inner transition must be
    // taken on its declared share of the second draw whatever the first draw was
    for (ci, (w1a, w1b, w2)) in [(128u32, 128u32, 128u32), (64, 128, 64), (32, 32, 192), (255, 1, 1)].iter().enumerate() {
        const G: u32 = 256;
        let m = chain::probe(*w1a as f32 / G as f32, *w1b as f32 / G as f32, *w2 as f32 / G as f32);
        let (mut moved, mut taken) = (Vec::new(), Vec::new());
        for i in 0..G {
            let (mut mv, mut tk) = (0u32, 0u32);
            for j in 0..G {
                match chain::run(&m, i << 24, j << 24) {
                    2 => tk += 1,
                    1 => mv += 1,
                    _ => {}
                }
            }
            moved.push(if mv + tk == G { 1 } else if mv + tk == 0 { 0 } else { 2 });
            taken.push(tk);
        }
        writeln!(f, "{}", json!({"k": "chain", "id": 900000 + ci, "G": G, "w1a": w1a, "w1b": w1b, "w2": w2,
                                 "moved": moved, "taken": taken, "n": 1, "p": [format!("{}/256", w2)], "targets": [4],
                                 "count": [0], "none": 0})).unwrap();
        written += 1;
    }
    f.flush().unwrap();
    println!("{}", json!({"vectors": written, "draws_each": R}));
}

mod chain {
    use enum_map::enum_map;
    use maybenot::action::{Action, Timer};
    use maybenot::counter::{Counter, Operation};
    use maybenot::event::Event;
    use maybenot::state::{State, Trans};
    use maybenot::{Framework, Machine, TriggerAction, TriggerEvent};
    use rand_core::{Error, RngCore};
    use std::cell::RefCell;
    use std::collections::VecDeque;
    use std::rc::Rc;
    use std::time::Instant;

    #[derive(Clone)]
    struct Scripted(Rc<RefCell<VecDeque<u32>>>);
    impl RngCore for Scripted {
        fn next_u32(&mut self) -> u32 {
            self.0.borrow_mut().pop_front().unwrap_or(0)
        }
        fn next_u64(&mut self) -> u64 {
            let lo = self.next_u32() as u64;
            ((self.next_u32() as u64) << 32) | lo
        }
        fn fill_bytes(&mut self, dest: &mut [u8]) {
            for c in dest.chunks_mut(4) {
                let w = self.next_u32().to_le_bytes();
                c.copy_from_slice(&w[..c.len()]);
            }
        }
        fn try_fill_bytes(&mut self, dest: &mut [u8]) -> Result<(), Error> {
            self.fill_bytes(dest);
            Ok(())
        }
    }

    /// 0 -NormalRecv-> 1 (A += 1) -NormalSent-> 2 (pa) | 3 (pb); entering 2 or 3 decrements A to zero;
    /// CounterZero -> 4 with p2. The states carry distinguishable Cancel actions.
    pub fn probe(pa: f32, pb: f32, p2: f32) -> Machine {
        let s0 = State::new(enum_map! { Event::NormalRecv => vec![Trans(1, 1.0)], _ => vec![] });
        let mut s1 = State::new(enum_map! { Event::NormalSent => vec![Trans(2, pa), Trans(3, pb)], _ => vec![] });
        s1.counter = (Some(Counter::new(Operation::Increment)), None);
        let mut s2 = State::new(enum_map! { Event::CounterZero => vec![Trans(4, p2)], _ => vec![] });
        s2.counter = (Some(Counter::new(Operation::Decrement)), None);
        s2.action = Some(Action::Cancel { timer: Timer::Action });
        let mut s3 = State::new(enum_map! { Event::CounterZero => vec![Trans(4, p2)], _ => vec![] });
        s3.counter = (Some(Counter::new(Operation::Decrement)), None);
        s3.action = Some(Action::Cancel { timer: Timer::Internal });
        let mut s4 = State::new(enum_map! { _ => vec![] });
        s4.action = Some(Action::Cancel { timer: Timer::All });
        Machine::new(u64::MAX, 0.0, 0, 0.0, vec![s0, s1, s2, s3, s4]).unwrap()
    }

    /// 0 = not moved, 1 = moved to 2 or 3 only, 2 = the CounterZero transition was taken as well
    pub fn run(m: &Machine, first: u32, second: u32) -> u32 {
        let words = Rc::new(RefCell::new(VecDeque::new()));
        let now = Instant::now();
        let ms = [m.clone()];
        let mut f = Framework::new(&ms, 0.0, 0.0, now, Scripted(words.clone())).unwrap();
        let _ = f.trigger_events(&[TriggerEvent::NormalRecv], now).count();
        words.borrow_mut().clear();
        words.borrow_mut().extend([first, second]);
        let acts: Vec<TriggerAction> = f.trigger_events(&[TriggerEvent::NormalSent], now).cloned().collect();
        match acts.first() {
            Some(TriggerAction::Cancel { timer: Timer::All, .. }) => 2,
            Some(TriggerAction::Cancel { .. }) => 1,
            _ => 0,
        }
    }
}
