//! fw_random --seed S --scenarios N --calls K --out trace.ndjson [--no-real] [--big-ids]
//!
//! Seeded random driver: randomly composed validated machines (all action
//! kinds, all 11 distribution families, counters, limits, pseudo-states),
//! random histories with batches, unknown ids and non-monotone clocks, the
//! real Xoshiro256** stream. Every scenario is also run on a twin built from
//! the same arguments and on a clone taken at a random call (C05: nothing
//! but the inputs influences the result). Writes the recorded traces,
//! reset-separated, for trace validation; prints a JSON summary.
use rand::Rng;
use rand_xoshiro::rand_core::SeedableRng;
use rand_xoshiro::Xoshiro256StarStar;
use serde_json::json;
use std::io::Write;
use verif_harness::gen::*;
use verif_harness::render::*;

fn arg(args: &[String], name: &str) -> Option<String> {
    args.iter()
        .position(|a| a == name)
        .and_then(|i| args.get(i + 1).cloned())
}

fn main() {
    let args: Vec<String> = std::env::args().collect();
    let seed: u64 = arg(&args, "--seed").and_then(|s| s.parse().ok()).unwrap_or(1);
    let scenarios: u64 = arg(&args, "--scenarios")
        .and_then(|s| s.parse().ok())
        .unwrap_or(100);
    let calls: usize = arg(&args, "--calls").and_then(|s| s.parse().ok()).unwrap_or(40);
    let out = arg(&args, "--out").expect("--out");
    let real = !args.iter().any(|a| a == "--no-real");
    let big_ids = args.iter().any(|a| a == "--big-ids");
    std::panic::set_hook(Box::new(|_| {}));
    let mut f = std::io::BufWriter::new(std::fs::File::create(&out).unwrap());
    let mut g = grng(seed);
    let (mut n_calls, mut n_trans, mut n_panic, mut n_gap, mut n_nondet, mut n_actions) =
        (0u64, 0u64, 0u64, 0u64, 0u64, 0u64);
    let mut n_written = 0u64;
    let mut invalid = 0u64;
    let mut sample = None;
    for sc in 0..scenarios {
        let conf = gen_conf(&mut g, real);
        if conf.M.iter().any(|m| m.to_machine().is_err()) {
            invalid += 1;
            continue;
        }
        let hist = gen_history(&mut g, conf.M.len(), calls, big_ids);
        let fseed = seed.wrapping_mul(1_000_003).wrapping_add(sc);
        let machines: Vec<maybenot::Machine> =
            conf.M.iter().map(|m| m.to_machine_unchecked()).collect();
        let mk = || {
            FwRun::from_machines(
                machines.clone(),
                verif_harness::model::frac(conf.fwPad),
                verif_harness::model::frac(conf.fwBlk),
                Xoshiro256StarStar::seed_from_u64(fseed),
            )
        };
        let (mut run, mut twin) = match (mk(), mk()) {
            (Ok(a), Ok(b)) => (a, b),
            (Err(e), _) | (_, Err(e)) => {
                // validated machines and fractions in [0,1]: must not fail (C12)
                writeln!(f, "{}", json!({"k": "reset", "id": sc})).unwrap();
                writeln!(f, "{}", json!({"k": "panic", "msg": e})).unwrap();
                n_panic += 1;
                continue;
            }
        };
        let clone_at = g.gen_range(0..hist.len().max(1));
        let mut clone: Option<FwRun<Xoshiro256StarStar>> = None;
        let mut lines = vec![json!({"k": "reset", "id": sc}), run.new_line(&conf)];
        let mut nondet = false;
        for (ci, c) in hist.iter().enumerate() {
            if ci == clone_at {
                clone = Some(FwRun {
                    fw: run.fw.clone(),
                    gaps: Gaps::default(),
                });
            }
            let o = run.call(&c.events, c.t);
            let o2 = twin.call(&c.events, c.t);
            n_calls += 1;
            n_trans += o.transitions;
            if o.lines != o2.lines {
                nondet = true;
            }
            if let Some(cl) = clone.as_mut() {
                let o3 = cl.call(&c.events, c.t);
                if o.lines != o3.lines {
                    nondet = true;
                }
            }
            if let Some(r) = o.lines.last() {
                n_actions += r["acts"].as_array().map(|a| a.len()).unwrap_or(0) as u64;
            }
            let panicked = o.panic.is_some();
            lines.extend(o.lines);
            if panicked {
                n_panic += 1;
                break;
            }
        }
        if nondet {
            n_nondet += 1;
            lines.push(json!({"k": "nondet"}));
        }
        if run.gaps.0 > 0 {
            // values outside the specification's integer encoding: not given to TLC
            n_gap += 1;
            continue;
        }
        if sample.is_none() && lines.len() > 10 {
            sample = Some(lines.iter().take(12).cloned().collect::<Vec<_>>());
        }
        for l in &lines {
            writeln!(f, "{}", l).unwrap();
        }
        n_written += 1;
    }
    f.flush().unwrap();
    println!(
        "{}",
        json!({"scenarios": scenarios, "written": n_written, "invalid_generated": invalid,
               "calls": n_calls, "transitions": n_trans, "actions": n_actions,
               "panics": n_panic, "gap_skipped": n_gap, "nondeterministic": n_nondet,
               "sample": sample})
    );
}
