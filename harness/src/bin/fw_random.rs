//! fw_random --seed S --scenarios N --calls K --out trace.ndjson [--no-real] [--big-ids]
//!
//! Seeded random driver: randomly composed validated machines (all action
//! kinds, all 11 distribution families, counters, limits, pseudo-states),
//! random histories with batches, unknown ids and non-monotone clocks, the
//! real Xoshiro256** stream. Every scenario is also run on a twin built from
//! the same arguments and on a clone taken at a random call (C05: nothing
//! but the inputs influences the result). Writes the recorded traces,
//! reset-separated, for trace validation; prints a JSON summary.
use rand::Rng;
use rand_xoshiro::rand_core::SeedableRng;
use rand_xoshiro::Xoshiro256StarStar;
use serde_json::json;
use std::io::Write;
use verif_harness::gen::*;
use verif_harness::render::*;

fn arg(args: &[String], name: &str) -> Option<String> {
    args.iter()
        .position(|a| a == name)
        .and_then(|i| args.get(i + 1).cloned())
}

fn main() {
    // a large stack: a call that recurses without bound is stopped by the draw budget (srng::budget)
    // well before the stack ends, so it becomes a recorded panic instead of a dead driver
    std::thread::Builder::new().stack_size(1 << 30).spawn(real_main).unwrap().join().unwrap();
}

fn real_main() {
    let args: Vec<String> = std::env::args().collect();
    let seed: u64 = arg(&args, "--seed").and_then(|s| s.parse().ok()).unwrap_or(1);
    let scenarios: u64 = arg(&args, "--scenarios")
        .and_then(|s| s.parse().ok())
        .unwrap_or(100);
    let calls: usize = arg(&args, "--calls").and_then(|s| s.parse().ok()).unwrap_or(40);
    let out = arg(&args, "--out").expect("--out");
    let real = !args.iter().any(|a| a == "--no-real");
    let big_ids = args.iter().any(|a| a == "--big-ids");
    std::panic::set_hook(Box::new(|_| {}));
    let mut f = std::io::BufWriter::new(std::fs::File::create(&out).unwrap());
    let mut g = grng(seed);
    let (mut n_calls, mut n_trans, mut n_panic, mut n_gap, mut n_nondet, mut n_actions) =
        (0u64, 0u64, 0u64, 0u64, 0u64, 0u64);
    let mut n_written = 0u64;
    let mut invalid = 0u64;
    let mut sample = None;
    for sc in 0..scenarios {
        let conf = gen_conf(&mut g, real);
        if conf.M.iter().any(|m| m.to_machine().is_err()) {
            invalid += 1;
            continue;
        }
        let hist = gen_history(&mut g, conf.M.len(), if conf.M.len() > 8 { calls / 3 + 1 } else { calls }, big_ids);
        let fseed = seed.wrapping_mul(1_000_003).wrapping_add(sc);
        let machines: Vec<maybenot::Machine> =
            conf.M.iter().map(|m| m.to_machine_unchecked()).collect();
        // machines without real distribution families also meet rare random words
        // (all ones, zero, extreme mantissas) in every other scenario
        let no_real = conf.M.iter().all(|m| m.states.iter().all(|s| {
            [&s.action.timeout, &s.action.duration, &s.action.limit, &s.ca.dist, &s.cb.dist].iter().all(|d| d.real.is_none())
        }));
        let spiked = no_real && sc % 2 == 1;
        let mk = || {
            FwRun::from_machines(
                machines.clone(),
                verif_harness::model::frac(conf.fwPad),
                verif_harness::model::frac(conf.fwBlk),
                verif_harness::srng::Spiked { inner: Xoshiro256StarStar::seed_from_u64(fseed), lcg: fseed ^ 0x1234, on: spiked },
            )
        };
        let (mut run, mut twin) = match (mk(), mk()) {
            (Ok(a), Ok(b)) => (a, b),
            (Err(e), _) | (_, Err(e)) => {
                // validated machines and fractions in [0,1]: must not fail (C12)
                writeln!(f, "{}", json!({"k": "reset", "id": sc})).unwrap();
                writeln!(f, "{}", json!({"k": "panic", "msg": e})).unwrap();
                n_panic += 1;
                continue;
            }
        };
        let clone_at = g.gen_range(0..hist.len().max(1));
        let mut clone: Option<FwRun<verif_harness::srng::Spiked>> = None;
        let mut lines = vec![json!({"k": "reset", "id": sc}), run.new_line(&conf)];
        let mut nondet = false;
        for (ci, c) in hist.iter().enumerate() {
            if ci == clone_at {
                clone = Some(FwRun {
                    fw: run.fw.clone(),
                    gaps: Gaps::default(),
                });
            }
            verif_harness::srng::budget(c.events.len(), machines.len());
            let o = run.call(&c.events, c.t);
            verif_harness::srng::budget(c.events.len(), machines.len());
            let o2 = twin.call(&c.events, c.t);
            n_calls += 1;
            n_trans += o.transitions;
            if o.lines != o2.lines {
                nondet = true;
            }
            if let Some(cl) = clone.as_mut() {
                verif_harness::srng::budget(c.events.len(), machines.len());
                let o3 = cl.call(&c.events, c.t);
                if o.lines != o3.lines {
                    nondet = true;
                }
            }
            if let Some(r) = o.lines.last() {
                n_actions += r["acts"].as_array().map(|a| a.len()).unwrap_or(0) as u64;
            }
            let panicked = o.panic.is_some();
            lines.extend(o.lines);
            if panicked {
                n_panic += 1;
                break;
            }
        }
        if nondet {
            n_nondet += 1;
            lines.push(json!({"k": "nondet"}));
        }
        if run.gaps.0 > 0 {
            // values outside the specification's integer encoding: not given to TLC
            n_gap += 1;
            continue;
        }
        if sample.is_none() && lines.len() > 10 {
            sample = Some(lines.iter().take(12).cloned().collect::<Vec<_>>());
        }
        for l in &lines {
            writeln!(f, "{}", l).unwrap();
        }
        n_written += 1;
    }
    // boundary tour: the same kind of scenario with amounts from the part of the u64 range the
    // specification's integer encoding leaves out (around 2^31, 2^32, 2^53, 2^62, 2^63). Nothing is
    // given to TLC; what is judged is what needs no model: every call returns (C01) and the run is
    // a function of its inputs (C05).
    let boundary: u64 = arg(&args, "--boundary").and_then(|s| s.parse().ok()).unwrap_or(0);
    let mut bout = arg(&args, "--boundary-out").map(|p| std::io::BufWriter::new(std::fs::File::create(p).unwrap()));
    let (mut b_run, mut b_calls, mut b_panic, mut b_nondet) = (0u64, 0u64, 0u64, 0u64);
    const B: [f64; 14] = [
        9223372036854775808.0, // 2^63
        9223372036854774784.0, // 2^63 - 1024
        9223372036854777856.0, // 2^63 + 2048
        4611686018427387904.0, // 2^62
        13835058055282163712.0, // 2^63 + 2^62
        18446744073709549568.0, // 2^64 - 2048
        18446744073709551616.0, // 2^64 (saturates)
        4294967296.0, 4294967295.0, 2147483648.0, 2147483647.0,
        9007199254740992.0, 9007199254740994.0, // 2^53, 2^53 + 2
        1e19,
    ];
    for sc in 0..boundary {
        let conf = gen_conf(&mut g, false);
        if conf.M.iter().any(|m| m.to_machine().is_err()) {
            continue;
        }
        let mut hist = gen_history(&mut g, conf.M.len(), if conf.M.len() > 8 { calls / 3 + 1 } else { calls }, false);
        // clock values beyond 2^32 us as well (jumps of 2^32 .. 2^58 us, total below 2^61)
        if sc % 2 == 0 {
            let mut off = 0i64;
            for c in hist.iter_mut() {
                if g.gen_range(0..6) == 0 {
                    off += *[1i64 << 32, (1i64 << 32) + 1, 1i64 << 40, 1i64 << 53, 1i64 << 58].get(g.gen_range(0..5)).unwrap();
                    off = off.min(1i64 << 61);
                }
                c.t += off;
            }
        }
        let mut machines: Vec<maybenot::Machine> = conf.M.iter().map(|m| m.to_machine_unchecked()).collect();
        let constant = |g: &mut GRng| {
            let v = B[g.gen_range(0..B.len())];
            maybenot::dist::Dist::new(maybenot::dist::DistType::Uniform { low: v, high: v }, 0.0, 0.0)
        };
        for m in machines.iter_mut() {
            if g.gen_bool(0.3) {
                m.allowed_padding_packets = B[g.gen_range(0..B.len())] as u64;
            }
            if g.gen_bool(0.3) {
                m.allowed_blocked_microsec = B[g.gen_range(0..B.len())] as u64;
            }
            for st in m.states.iter_mut() {
                for c in [&mut st.counter.0, &mut st.counter.1] {
                    if let Some(c) = c.as_mut() {
                        if g.gen_bool(0.6) {
                            c.dist = Some(constant(&mut g));
                        }
                    }
                }
                if let Some(a) = st.action.as_mut() {
                    use maybenot::action::Action;
                    let l = match a {
                        Action::SendPadding { limit, .. } => limit,
                        Action::BlockOutgoing { limit, .. } => limit,
                        Action::UpdateTimer { limit, .. } => limit,
                        Action::Cancel { .. } => continue,
                    };
                    if l.is_some() && g.gen_bool(0.5) {
                        *l = Some(constant(&mut g));
                    }
                }
            }
        }
        if machines.iter().any(|m| m.validate().is_err()) {
            continue;
        }
        let fseed = seed.wrapping_mul(7_000_003).wrapping_add(sc);
        let mk = || {
            FwRun::from_machines(
                machines.clone(),
                verif_harness::model::frac(conf.fwPad),
                verif_harness::model::frac(conf.fwBlk),
                // the plain stream, counted against the per-call draw budget
                verif_harness::srng::Spiked { inner: Xoshiro256StarStar::seed_from_u64(fseed), lcg: 0, on: false },
            )
        };
        let (mut run, mut twin) = match (mk(), mk()) {
            (Ok(a), Ok(b)) => (a, b),
            _ => continue,
        };
        b_run += 1;
        let mut problem: Option<serde_json::Value> = None;
        for (ci, c) in hist.iter().enumerate() {
            verif_harness::srng::budget(c.events.len(), machines.len());
            let o = run.call(&c.events, c.t);
            verif_harness::srng::budget(c.events.len(), machines.len());
            let o2 = twin.call(&c.events, c.t);
            b_calls += 1;
            if let Some(msg) = &o.panic {
                b_panic += 1;
                problem = Some(json!({"what": "panic", "msg": msg, "call": ci}));
                break;
            }
            if o.lines != o2.lines {
                b_nondet += 1;
                problem = Some(json!({"what": "nondet", "call": ci}));
                break;
            }
        }
        if let (Some(pb), Some(bf)) = (problem, bout.as_mut()) {
            writeln!(bf, "{}", json!({"scenario": sc, "problem": pb, "rng_seed": fseed,
                "fractions": [verif_harness::model::frac(conf.fwPad), verif_harness::model::frac(conf.fwBlk)],
                "machines": machines.iter().map(|m| m.serialize()).collect::<Vec<_>>(),
                "history": hist.iter().map(|c| json!({"t": c.t, "events": c.events})).collect::<Vec<_>>()})).unwrap();
        }
    }
    if let Some(bf) = bout.as_mut() {
        bf.flush().unwrap();
    }
    f.flush().unwrap();
    println!(
        "{}",
        json!({"scenarios": scenarios, "written": n_written, "invalid_generated": invalid,
               "calls": n_calls, "transitions": n_trans, "actions": n_actions,
               "panics": n_panic, "gap_skipped": n_gap, "nondeterministic": n_nondet,
               "boundary": {"run": b_run, "calls": b_calls, "panics": b_panic, "nondeterministic": b_nondet},
               "sample": sample})
    );
}
