//! validate_cases --cases cases.ndjson --out recs.ndjson
//!
//! C12: concretises every abstract case emitted by TLC (Validation.tla) with
//! several bit patterns per value class, assembles the machine through the
//! public fields, and records the verdicts of Machine::validate,
//! Machine::new, serialize -> from_str and Framework::new, and whether one
//! trigger_events per event kind returns.
use enum_map::enum_map;
use maybenot::action::Action;
use maybenot::constants::{STATE_END, STATE_MAX, STATE_SIGNAL};
use maybenot::counter::{Counter, Operation};
use maybenot::dist::{Dist, DistType};
use maybenot::event::Event;
use maybenot::state::{State, Trans};
use maybenot::{Framework, Machine, MachineId, TriggerEvent};
use serde_json::{json, Value};
use std::io::{BufRead, BufReader, Write};
use std::panic::{catch_unwind, AssertUnwindSafe};
use std::str::FromStr;
use std::time::Instant;

fn arg(args: &[String], name: &str) -> Option<String> {
    args.iter().position(|a| a == name).and_then(|i| args.get(i + 1).cloned())
}

fn f64s(c: &str) -> Vec<f64> {
    match c {
        "NaN" => vec![f64::NAN, -f64::NAN, f64::from_bits(0x7ff0_0000_0000_0001)],
        "-inf" => vec![f64::NEG_INFINITY],
        "-max" => vec![-f64::MAX],
        "neg" => vec![-1.0, -1e-300],
        "-0" => vec![-0.0],
        "+0" => vec![0.0],
        "sub" => vec![5e-324],
        "tiny" => vec![1e-10],
        "minp" => vec![1e-9],
        "half" => vec![0.5],
        "1-ulp" => vec![1.0 - f64::EPSILON / 2.0],
        "one" => vec![1.0],
        "1+ulp" => vec![1.0 + f64::EPSILON],
        "two" => vec![2.0, 3.5],
        "big" => vec![1e9],
        "bigger" => vec![2e9],
        "e42" => vec![1e42],
        "e43" => vec![1e43],
        "max" => vec![f64::MAX],
        "+inf" => vec![f64::INFINITY],
        o => panic!("unknown class {o}"),
    }
}
fn f32s(c: &str) -> Vec<f32> {
    match c {
        "NaN" => vec![f32::NAN, -f32::NAN, f32::from_bits(0x7f80_0001)],
        "-inf" => vec![f32::NEG_INFINITY],
        "neg" => vec![-0.5],
        "-0" => vec![-0.0],
        "+0" => vec![0.0],
        "sub" => vec![f32::from_bits(1)],
        "quarter" => vec![0.25],
        "half" => vec![0.5],
        "half+" => vec![0.5 + 2f32.powi(-23)],
        "3quarter" => vec![0.75],
        "1-ulp" => vec![1.0 - 2f32.powi(-24)],
        "one" => vec![1.0],
        "1+ulp" => vec![1.0 + f32::EPSILON],
        "two" => vec![2.0],
        "+inf" => vec![f32::INFINITY],
        o => panic!("unknown prob class {o}"),
    }
}
fn pick<T: Copy>(v: &[T], k: usize) -> T {
    v[k % v.len()]
}
fn trials(c: &str) -> u64 {
    match c {
        "t0" => 0,
        "t1" => 1,
        "t1e9" => 1_000_000_000,
        "t1e9+1" => 1_000_000_001,
        "tmax" => u64::MAX,
        o => panic!("unknown trials class {o}"),
    }
}

fn dist_of(d: &Value, k: usize) -> Option<Dist> {
    let fam = d["fam"].as_str().unwrap();
    if fam == "none" {
        return None;
    }
    let ps: Vec<&str> = d["ps"].as_array().unwrap().iter().map(|x| x.as_str().unwrap()).collect();
    let p = |i: usize| pick(&f64s(ps[i]), k);
    let t = match fam {
        "Uniform" => DistType::Uniform { low: p(0), high: p(1) },
        "Normal" => DistType::Normal { mean: p(0), stdev: p(1) },
        "LogNormal" => DistType::LogNormal { mu: p(0), sigma: p(1) },
        "SkewNormal" => DistType::SkewNormal { location: p(0), scale: p(1), shape: p(2) },
        "Binomial" => DistType::Binomial { trials: trials(ps[0]), probability: p(1) },
        "Geometric" => DistType::Geometric { probability: p(0) },
        "Pareto" => DistType::Pareto { scale: p(0), shape: p(1) },
        "Poisson" => DistType::Poisson { lambda: p(0) },
        "Weibull" => DistType::Weibull { scale: p(0), shape: p(1) },
        "Gamma" => DistType::Gamma { scale: p(0), shape: p(1) },
        "Beta" => DistType::Beta { alpha: p(0), beta: p(1) },
        o => panic!("unknown family {o}"),
    };
    // start and max are unrestricted
    let (start, max) = [(0.0, 0.0), (f64::NAN, f64::INFINITY), (-5.0, 1e300)][k % 3];
    Some(Dist::new(t, start, max))
}

/// out-of-range targets that are not the two pseudo-state constants: the top of the usize range,
/// values whose low 32 bits alias a pseudo-state, neighbours of the constants
const HUGE_TARGETS: [usize; 12] = [
    STATE_MAX,
    usize::MAX,
    usize::MAX - 1,
    (1usize << 32) | STATE_END,
    (1usize << 32) | STATE_SIGNAL,
    STATE_END + 1,
    1usize << 32,
    1usize << 63,
    usize::MAX - 2,
    (1usize << 63) | STATE_SIGNAL,
    STATE_END + 2,
    (0xFFFF_FFFFusize << 32) | STATE_END,
];

fn build(case: &Value, k: usize, idx: usize) -> Machine {
    let n = case["nstates"].as_u64().unwrap() as usize;
    let ok = Dist::new(DistType::Uniform { low: 2.0, high: 2.0 }, 0.0, 0.0);
    let d = dist_of(&case["dist"], k);
    let dpos = case["dpos"].as_str().unwrap();
    let mut states = Vec::new();
    if n >= 1 {
        let vec: Vec<Trans> = case["vec"]
            .as_array()
            .unwrap()
            .iter()
            .map(|t| {
                let to = match t["to"].as_str().unwrap() {
                    "s0" => 0,
                    "s1" => 1,
                    "oob" => n + (idx + k) % 2 * (k + 1),
                    "huge" => pick(&HUGE_TARGETS, idx * 3 + k),
                    "END" => STATE_END,
                    "SIGNAL" => STATE_SIGNAL,
                    o => panic!("unknown target {o}"),
                };
                Trans(to, pick(&f32s(t["p"].as_str().unwrap()), k))
            })
            .collect();
        // the context of the judged field (Validation.tla `ctx`): validity is compositional, so the
        // verdict may not depend on what else the machine carries or where the state sits
        let ctx = case["ctx"].as_str().unwrap_or("bare");
        let full = ctx == "full";
        let events: Vec<Event> = Event::iter().copied().collect();
        // the event that carries the judged vector rotates over all 13 kinds
        let carrier = if ctx == "bare" { Event::NormalSent } else { events[(idx * 3 + k) % events.len()] };
        let other = vec![Trans(0, 0.5), Trans(STATE_END, 0.25)];
        let mut s0 = State::new(enum_map! { e => if e == carrier { vec.clone() } else if full { other.clone() } else { vec![] } });
        let dd = d.unwrap_or(ok);
        let lim = if full { Some(ok) } else { None };
        s0.action = Some(match dpos {
            "pad.limit" => Action::SendPadding { bypass: full, replace: false, timeout: ok, limit: Some(dd) },
            "block.timeout" => Action::BlockOutgoing { bypass: false, replace: full, timeout: dd, duration: ok, limit: lim },
            "block.duration" => Action::BlockOutgoing { bypass: full, replace: false, timeout: ok, duration: dd, limit: lim },
            "block.limit" => Action::BlockOutgoing { bypass: false, replace: false, timeout: ok, duration: ok, limit: Some(dd) },
            "timer.duration" => Action::UpdateTimer { replace: full, duration: dd, limit: lim },
            "timer.limit" => Action::UpdateTimer { replace: false, duration: ok, limit: Some(dd) },
            "pad.timeout" => Action::SendPadding { bypass: false, replace: full, timeout: dd, limit: lim },
            _ => Action::SendPadding { bypass: false, replace: false, timeout: ok, limit: lim },
        });
        if full {
            // both counters present and valid unless one of them is the judged position
            s0.counter.0 = Some(Counter { operation: Operation::Decrement, dist: if k == 1 { None } else { Some(ok) }, copy: k == 1 });
            s0.counter.1 = Some(Counter { operation: Operation::Increment, dist: Some(ok), copy: false });
        }
        if dpos == "ctrA" {
            s0.counter.0 = Some(Counter { operation: Operation::Increment, dist: Some(dd), copy: false });
        }
        if dpos == "ctrB" {
            s0.counter.1 = Some(Counter { operation: Operation::Set, dist: Some(dd), copy: false });
        }
        let mut filler = State::new(enum_map! { Event::NormalRecv => vec![Trans(0, 1.0)], _ => vec![] });
        if full {
            filler.action = Some(Action::UpdateTimer { replace: true, duration: ok, limit: Some(ok) });
            filler.counter.1 = Some(Counter { operation: Operation::Set, dist: None, copy: true });
        }
        if ctx == "last" && n >= 2 {
            // the judged state is the last one
            states.push(filler);
            states.push(s0);
        } else {
            states.push(s0);
            if n >= 2 {
                states.push(filler);
            }
        }
    }
    Machine {
        allowed_padding_packets: 3,
        max_padding_frac: pick(&f64s(case["padFrac"].as_str().unwrap()), k),
        allowed_blocked_microsec: 7,
        max_blocking_frac: pick(&f64s(case["blockFrac"].as_str().unwrap()), k),
        states,
    }
}

fn main() {
    let args: Vec<String> = std::env::args().collect();
    let cases = arg(&args, "--cases").expect("--cases");
    let out = arg(&args, "--out").expect("--out");
    std::panic::set_hook(Box::new(|_| {}));
    let mut f = std::io::BufWriter::new(std::fs::File::create(&out).unwrap());
    let (mut n, mut accepted, mut recs) = (0u64, 0u64, 0u64);
    for (i, line) in BufReader::new(std::fs::File::open(cases).unwrap()).lines().enumerate() {
        let case: Value = serde_json::from_str(&line.unwrap()).expect("case");
        n += 1;
        if i % 200 == 0 {
            writeln!(f, "{}", json!({"k": "reset", "id": i})).unwrap();
        }
        for k in 0..3usize {
            let m = build(&case, k, i);
            let validate_ok = catch_unwind(AssertUnwindSafe(|| m.validate().is_ok()));
            let new_ok = catch_unwind(AssertUnwindSafe(|| {
                Machine::new(
                    m.allowed_padding_packets,
                    m.max_padding_frac,
                    m.allowed_blocked_microsec,
                    m.max_blocking_frac,
                    m.states.clone(),
                )
                .is_ok()
            }));
            let fromstr_ok = catch_unwind(AssertUnwindSafe(|| {
                let s = m.serialize();
                Machine::from_str(&s).is_ok()
            }));
            let fw_pad = pick(&f64s(case["fwPad"].as_str().unwrap()), k);
            let fw_blk = pick(&f64s(case["fwBlk"].as_str().unwrap()), k);
            // the framework part runs in its own thread under a CPU-time budget: an accepted machine that
            // never returns (a sampler looping on parameters validation should have refused) is data
            let mc = m.clone();
            let mut hung = false;
            let (fw_ok, ran_ok): (std::thread::Result<bool>, bool) = match verif_harness::watchdog::run(move || {
                let mut ran_ok = false;
                let fw_ok = catch_unwind(AssertUnwindSafe(|| {
                    match Framework::new(vec![mc.clone()], fw_pad, fw_blk, Instant::now(), rand::thread_rng()) {
                        Err(_) => false,
                        Ok(mut fw) => {
                            let id = MachineId::from_raw(0);
                            let evs = [
                                TriggerEvent::NormalSent,
                                TriggerEvent::NormalRecv,
                                TriggerEvent::PaddingSent { machine: id },
                                TriggerEvent::PaddingRecv,
                                TriggerEvent::TunnelSent,
                                TriggerEvent::TunnelRecv,
                                TriggerEvent::BlockingBegin { machine: id },
                                TriggerEvent::BlockingEnd,
                                TriggerEvent::TimerBegin { machine: id },
                                TriggerEvent::TimerEnd { machine: id },
                            ];
                            let r = catch_unwind(AssertUnwindSafe(|| {
                                for _ in 0..3 {
                                    for e in evs.iter() {
                                        let _ = fw.trigger_events(&[e.clone()], Instant::now()).count();
                                    }
                                }
                            }));
                            ran_ok = r.is_ok();
                            true
                        }
                    }
                }));
                (fw_ok.map_err(|_| ()), ran_ok)
            }, std::time::Duration::from_secs(3), std::time::Duration::from_secs(300)) {
                verif_harness::watchdog::Outcome::Done((r, ran)) => (r.map_err(|_| Box::new(()) as Box<dyn std::any::Any + Send>), ran),
                verif_harness::watchdog::Outcome::Hang => {
                    hung = true;
                    (Ok(true), false)
                }
                verif_harness::watchdog::Outcome::Starved => {
                    eprintln!("validate_cases: starved of CPU, nothing can be said");
                    std::process::exit(2);
                }
            };
            let b = |r: std::thread::Result<bool>| r.unwrap_or(false);
            let panicked = validate_ok.is_err() || new_ok.is_err() || fromstr_ok.is_err() || fw_ok.is_err();
            let v = b(validate_ok);
            accepted += v as u64;
            recs += 1;
            writeln!(
                f,
                "{}",
                json!({"k": "case", "id": i, "variant": k, "case": case, "validate_ok": v,
                       "new_ok": b(new_ok), "fromstr_ok": b(fromstr_ok), "fw_ok": b(fw_ok),
                       "ran_ok": ran_ok, "hung": hung, "panicked": panicked})
            )
            .unwrap();
        }
    }
    f.flush().unwrap();
    println!("{}", json!({"cases": n, "records": recs, "accepted": accepted}));
}
