------------------------------- MODULE Codec -------------------------------
(***************************************************************************)
(* C11: the machine string codec (crates/maybenot/src/machine.rs from_str / *)
(* serialize, parsing.rs parse_v1_machine) as two step-wise pipelines, each *)
(* stage with its rejection outcome and a memory account.                   *)
(*                                                                         *)
(*   from_str (v2):  len >= 3 -> ASCII -> version "02" -> base64 -> inflate *)
(*        into a fixed buffer of MAX bytes by a LOOP of reads, each of      *)
(*        which may return any non-empty part of what is left (a reader is  *)
(*        allowed short reads), until the buffer is full or the stream ends *)
(*        -> bincode with limit MAX -> validate                             *)
(*   parse_v1_machine (v1):  hex -> inflate with read_to_end (unbounded: the*)
(*        property bounds memory for the current format only) -> 2-byte     *)
(*        version -> header length -> exact payload length for the declared *)
(*        number of states -> per-state parse -> Machine::new (validate)    *)
(*                                                                         *)
(* An abstract input says at which stage it is first malformed and how far  *)
(* it would decompress. TLC checks for every abstract input and every       *)
(* chunking of the reads that                                               *)
(*   Ok  => every stage accepted, in particular validation (both parsers);  *)
(*   the buffer is never overrun and the memory held by the current-format  *)
(*   parser is at most (K+1) MAX + input length in EVERY state, whatever    *)
(*   the input would decompress to (the bomb clause);                       *)
(*   a serialized valid machine of size <= MAX parses Ok whatever the       *)
(*   chunking (Variant {"F9"}: the historic single read() - RoundTrip is    *)
(*   violated by a short first read; `./check probe` shows the trace);      *)
(*   parsing terminates (Terminates, under weak fairness).                  *)
(* The byte-level fidelity of bincode / zlib / base64 is not modelled       *)
(* (DESIGN.md section 8): CodecTrace judges recorded runs of the real code. *)
(***************************************************************************)
EXTENDS Integers, Sequences, FiniteSets

CONSTANTS MAX,          \* MAX_DECOMPRESSED_SIZE in abstract units
          K,            \* slack factor for the in-memory form of the decoded machine
          VariantId     \* "cur" = the code as it is; "F9" = single read() of the pinned commit

Variant == IF VariantId = "F9" THEN {"F9"} ELSE {}

StagesV2 == <<"len", "ascii", "version", "base64", "inflate", "bincode", "validate">>
StagesV1 == <<"hex", "inflate", "version", "header", "paylen", "states", "validate">>
Stages(p) == IF p = "v2" THEN StagesV2 ELSE StagesV1
BadOf(p) == {"none"} \cup {Stages(p)[i] : i \in 1..Len(Stages(p))}

\* an abstract input: the parser it is given to, the first stage that rejects it ("none" =
\* well-formed), its length, and the size it would decompress to if fully inflated
Inputs == UNION {[parser : {p}, bad : BadOf(p), len : {1, 4, MAX, 4 * MAX},
                  expands : {1, MAX - 1, MAX, MAX + 1, 1000 * MAX}] : p \in {"v2", "v1"}}

VARIABLES inp, pc, nread, mem, out, buf    \* buf: the fixed inflate buffer has been allocated
vars == <<inp, pc, nread, mem, out, buf>>

StageIdx(p, s) == CHOOSE i \in 1..Len(Stages(p)) : Stages(p)[i] = s
NextStage(p, s) == IF StageIdx(p, s) = Len(Stages(p)) THEN "done" ELSE Stages(p)[StageIdx(p, s) + 1]
Min(a, b) == IF a < b THEN a ELSE b

Init == /\ inp \in Inputs
        /\ pc = Stages(inp.parser)[1] /\ nread = 0 /\ mem = 0 /\ out = "none" /\ buf = FALSE

Reject == pc' = "done" /\ out' = "Err" /\ UNCHANGED <<inp, nread, mem, buf>>
Advance(m) == pc' = NextStage(inp.parser, pc) /\ mem' = m /\ UNCHANGED <<inp, nread, buf>>
                /\ out' = IF NextStage(inp.parser, pc) = "done" THEN "Ok" ELSE out

\* a stage that only inspects what is there (no allocation)
PlainStage(s) == /\ pc = s
                 /\ IF inp.bad = s THEN Reject ELSE Advance(mem)

\* base64 / hex decoding allocates the decoded bytes (3/4 resp. 1/2 of the input)
DecodeStage(s, num, den) ==
  /\ pc = s
  /\ IF inp.bad = s THEN Reject ELSE Advance(mem + (num * inp.len) \div den + 1)

\* v2 inflate: vec![0; MAX] allocated once, then the read loop
InflateV2 ==
  /\ pc = "inflate" /\ inp.parser = "v2"
  /\ IF ~buf THEN /\ buf' = TRUE /\ mem' = mem + MAX /\ UNCHANGED <<inp, pc, nread, out>>
     ELSE
     LET room == MAX - nread
         left == inp.expands - nread           \* what the stream still holds
     IN IF inp.bad = "inflate"
          THEN \* a corrupt stream: some reads may succeed before the error; modelled as failing at once
               Reject
          ELSE IF room = 0 \/ left = 0
          THEN /\ pc' = "bincode" /\ UNCHANGED <<inp, nread, out, mem, buf>>
          ELSE \E n \in 1..Min(room, Min(left, 3)) :      \* any short read (chunks of 1..3 units)
                 /\ nread' = nread + n
                 /\ pc' = IF "F9" \in Variant THEN "bincode" ELSE pc
                 /\ UNCHANGED <<inp, out, mem, buf>>

\* v1 inflate: read_to_end into a growing Vec (no bound claimed for the legacy parser)
InflateV1 ==
  /\ pc = "inflate" /\ inp.parser = "v1"
  /\ IF inp.bad = "inflate" THEN Reject
     ELSE /\ nread' = inp.expands /\ mem' = mem + 2 * inp.expands
          /\ pc' = "version" /\ UNCHANGED <<inp, out, buf>>

\* bincode sees buf[..nread]: a cut stream cannot be a complete encoding of that machine
Bincode ==
  /\ pc = "bincode"
  /\ IF inp.bad = "bincode" \/ nread < inp.expands THEN Reject
     ELSE Advance(mem + K * nread)

Next ==
  \/ /\ inp.parser = "v2"
     /\ \/ PlainStage("len") \/ PlainStage("ascii") \/ PlainStage("version")
        \/ DecodeStage("base64", 3, 4) \/ InflateV2 \/ Bincode \/ PlainStage("validate")
  \/ /\ inp.parser = "v1"
     /\ \/ DecodeStage("hex", 1, 2) \/ InflateV1 \/ PlainStage("version") \/ PlainStage("header")
        \/ PlainStage("paylen") \/ PlainStage("states") \/ PlainStage("validate")

Spec == Init /\ [][Next]_vars /\ WF_vars(Next)

TypeOK == /\ pc \in {"done"} \cup {Stages(inp.parser)[i] : i \in 1..Len(Stages(inp.parser))}
          /\ out \in {"none", "Ok", "Err"} /\ (pc = "done") = (out # "none")
NoOverrun == inp.parser = "v2" => nread <= MAX
OkMeansValidated == out = "Ok" => inp.bad = "none"
\* bounded by a constant fixed by the limit plus the length of the input, independent of `expands`
MemoryBounded == inp.parser = "v2" => mem <= (K + 1) * MAX + inp.len
RoundTrip == (pc = "done" /\ inp.parser = "v2" /\ inp.bad = "none" /\ inp.expands <= MAX) => out = "Ok"
\* an over-long stream never yields a machine: the cut encoding is rejected, not silently accepted
BombRejected == (pc = "done" /\ inp.parser = "v2" /\ inp.expands > MAX) => out = "Err"
\* the legacy parser accepts exactly the well-formed inputs as well
V1Exact == (pc = "done" /\ inp.parser = "v1") => (out = "Ok") = (inp.bad = "none")
Terminates == <>(pc = "done")
=============================================================================
