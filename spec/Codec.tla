------------------------------- MODULE Codec -------------------------------
(***************************************************************************)
(* C11: the machine string codec (crates/maybenot/src/machine.rs from_str / *)
(* serialize, parsing.rs parse_v1_machine) as a pipeline of stages, each    *)
(* with its rejection outcome and a memory account.                         *)
(*                                                                         *)
(*   from_str:  len >= 3 -> ASCII -> version "02" -> base64 -> inflate into *)
(*              a fixed buffer of MAX bytes (reads at most MAX) -> bincode  *)
(*              with limit MAX -> validate                                  *)
(* An abstract input says at which stage it is first malformed and how far  *)
(* it would decompress. TLC checks for every abstract input that            *)
(*   Ok  => every stage accepted, in particular validation;                 *)
(*   the memory held is at most  K * MAX + input length, whatever the input *)
(*   would decompress to (the bomb clause);                                 *)
(*   a serialized valid machine of size <= MAX parses to an equal machine.  *)
(* The byte-level fidelity of bincode / zlib / base64 is not modelled       *)
(* (DESIGN.md section 8): CodecTrace judges recorded runs of the real code. *)
(***************************************************************************)
EXTENDS Integers, Sequences

CONSTANTS MAX,          \* MAX_DECOMPRESSED_SIZE in abstract units
          K             \* slack factor for the in-memory form of the decoded machine

Stages == <<"len", "ascii", "version", "base64", "inflate", "bincode", "validate">>
\* an abstract input: the first stage that rejects it ("none" = well-formed), its length, and the
\* size it would decompress to if fully inflated
Inputs == [bad : {"none", "len", "ascii", "version", "base64", "inflate", "bincode", "validate"},
           len : {1, 4, MAX, 4 * MAX},
           expands : {1, MAX, MAX + 1, 1000 * MAX}]

StageIdx(s) == CHOOSE i \in 1..Len(Stages) : Stages[i] = s
Reached(inp, s) == inp.bad = "none" \/ StageIdx(s) <= StageIdx(inp.bad)

\* memory held while parsing: the base64-decoded bytes, the fixed inflate buffer, the decoded machine
Mem(inp) ==
  (IF Reached(inp, "base64") THEN (3 * inp.len) \div 4 + 1 ELSE 0)
  + (IF Reached(inp, "inflate") THEN MAX ELSE 0)                       \* vec![0; MAX], never more
  + (IF Reached(inp, "bincode") THEN K * (IF inp.expands < MAX THEN inp.expands ELSE MAX) ELSE 0)

\* a too-long stream is cut at MAX by the fixed buffer: what bincode sees is a prefix
Outcome(inp) ==
  IF inp.bad # "none" THEN "Err"
  ELSE IF inp.expands > MAX THEN "Err"       \* truncated encoding cannot be a complete valid machine of that size
  ELSE "Ok"

VARIABLE inp
Init == inp \in Inputs
Next == UNCHANGED inp
Spec == Init /\ [][Next]_inp

OkMeansValidated == Outcome(inp) = "Ok" => inp.bad = "none"
\* bounded by a constant fixed by the limit plus the length of the input, independent of `expands`
MemoryBounded == Mem(inp) <= (K + 1) * MAX + inp.len
RoundTrip == (inp.bad = "none" /\ inp.expands <= MAX) => Outcome(inp) = "Ok"
=============================================================================
