------------------------------ MODULE Families ------------------------------
(***************************************************************************)
(* Curated machine families and event alphabets for model checking and     *)
(* behaviour generation. Each family is a set of configurations            *)
(* Conf(machines, fwPadFrac, fwBlockFrac); each machine exercises one       *)
(* feature (pair). Weights are in sixteenths (W = 16).                      *)
(***************************************************************************)
EXTENDS FwDefs

LOCAL Cf(machines, fwPad, fwBlk) == [M |-> machines, fwPad |-> fwPad, fwBlk |-> fwBlk]
LOCAL Always(s) == <<T(s, 16)>>
Half == <<1, 2>>
Quarter == <<1, 4>>
One == <<1, 1>>

---------------------------------------------------------------------------
\* C02: a one-state machine that (re)schedules padding on every global event
PadM(budget, frac) ==
  Mach(budget, frac, 0, Unset,
       <<St(Pad(FALSE, FALSE, Const(2), NoDist), NoCtr, NoCtr,
            [NormalSent |-> Always(0), PaddingSent |-> Always(0), NormalRecv |-> Always(0)])>>)
\* a machine that does nothing
Inert == Mach(0, Unset, 0, Unset, <<St(NoAction, NoCtr, NoCtr, [NormalSent |-> Always(0)])>>)

PadConfs(Budgets, Fracs, FwFracs) ==
  {Cf(<<PadM(b1, f1), PadM(b2, f2)>>, fw, Unset) :
     b1 \in Budgets, b2 \in Budgets, f1 \in Fracs, f2 \in Fracs, fw \in FwFracs}

\* C03: a one-state machine that (re)schedules blocking on every global event
BlockM(replace, budget, frac) ==
  Mach(0, Unset, budget, frac,
       <<St(Block(FALSE, replace, Const(1), Const(3), NoDist), NoCtr, NoCtr,
            [BlockingBegin |-> Always(0), BlockingEnd |-> Always(0), NormalSent |-> Always(0)])>>)

BlockConfs(Budgets, Fracs, FwFracs) ==
  {Cf(<<BlockM(r, b, f)>>, Unset, fw) :
     r \in BOOLEAN, b \in Budgets, f \in Fracs, fw \in FwFracs}
BlockConfs2(Budgets, Fracs, FwFracs) ==
  {Cf(<<BlockM(r1, b1, f1), BlockM(r2, b2, f2)>>, Unset, fw) :
     r1 \in BOOLEAN, r2 \in BOOLEAN, b1 \in Budgets, b2 \in Budgets,
     f1 \in Fracs, f2 \in Fracs, fw \in FwFracs}

---------------------------------------------------------------------------
\* C07: limited actions. State 0 idles; state 1 carries the limited action
\* (self-loops on completions and on NormalRecv, leaves on TunnelRecv, goes to
\* 2 on LimitReached); state 2 re-enters 1 on NormalSent.
LimAction(kind, L) ==
  CASE kind = "pad"   -> Pad(FALSE, FALSE, Const(1), L)
    [] kind = "block" -> Block(FALSE, TRUE, Const(1), Const(2), L)
    [] kind = "timer" -> UpdTimer(TRUE, Const(2), L)
LimM(kind, L) ==
  Mach(1000, Unset, 1000, Unset,
       <<St(NoAction, NoCtr, NoCtr, [NormalSent |-> Always(1)]),
         St(LimAction(kind, L), NoCtr, NoCtr,
            [PaddingSent |-> Always(1), BlockingBegin |-> Always(1), TimerBegin |-> Always(1),
             NormalRecv |-> Always(1), TunnelRecv |-> Always(0), LimitReached |-> Always(2)]),
         St(NoAction, NoCtr, NoCtr, [NormalSent |-> Always(1)])>>)
\* starts in the limited state, with a fraction limit set (F1: limit 0 still pads)
LimStartM(kind, L, frac) ==
  Mach(0, frac, 0, frac,
       <<St(LimAction(kind, L), NoCtr, NoCtr,
            [PaddingSent |-> Always(0), BlockingBegin |-> Always(0), TimerBegin |-> Always(0),
             NormalSent |-> Always(0), LimitReached |-> Always(1)]),
         St(NoAction, NoCtr, NoCtr, [NormalSent |-> Always(0)])>>)
\* a CounterZero round trip out of and back into the limited state
LimCzM(kind, L) ==
  Mach(1000, Unset, 1000, Unset,
       <<St(LimAction(kind, L), Ctr("inc"), NoCtr,
            [PaddingSent |-> Always(0), BlockingBegin |-> Always(0), TimerBegin |-> Always(0),
             NormalSent |-> Always(1), NormalRecv |-> Always(0)]),
         St(NoAction, Ctr("dec"), NoCtr, [CounterZero |-> Always(0), NormalSent |-> Always(1)])>>)

\* leaves the limited state and re-enters it through two CounterZero transitions inside one
\* transition: the limit sampled on re-entry may differ from the one the outer transition saw
LimReenterM(kind, L) ==
  Mach(1000, Unset, 1000, Unset,
       <<St(NoAction, NoCtr, NoCtr, [NormalSent |-> Always(1)]),
         St(NoAction, Ctr("inc"), Ctr("inc"), [NormalRecv |-> Always(2), NormalSent |-> Always(1)]),
         St(LimAction(kind, L), Ctr("dec"), NoCtr,
            [CounterZero |-> Always(3), PaddingSent |-> Always(2), NormalSent |-> Always(1)]),
         St(NoAction, NoCtr, Ctr("dec"), [CounterZero |-> Always(2), NormalSent |-> Always(1)])>>)
\* the same round trip (counter A reaches zero on entering the action state, counter B in the
\* intermediate state, CounterZero leads back) with budgets in force: the verdict on the
\* re-entered stay has to consult the budgets again, not only the fresh state limit.
\* e1 arms the counters, e2 enters the action state.
BudgetReenterM(kind, L, e1, e2, pb, pf, bb, bf) ==
  Mach(pb, pf, bb, bf,
       <<St(NoAction, NoCtr, NoCtr, e1 :> Always(1)),
         St(NoAction, Ctr("inc"), Ctr("inc"), e2 :> Always(2) @@ e1 :> Always(1)),
         St(LimAction(kind, L), Ctr("dec"), NoCtr,
            "CounterZero" :> Always(3) @@ "PaddingSent" :> Always(2) @@ e1 :> Always(1)),
         St(NoAction, NoCtr, Ctr("dec"), "CounterZero" :> Always(2) @@ e1 :> Always(1))>>)
PadReenterConfs ==
  {Cf(<<BudgetReenterM("pad", L, "NormalSent", "NormalRecv", b, f, 0, Unset)>>, fw, Unset) :
     L \in {NoDist, Const(2)}, b \in {0, 1}, f \in {Unset, Half}, fw \in {Unset, Half}}
BlockReenterConfs ==
  {Cf(<<BudgetReenterM("block", L, "BlockingBegin", "BlockingEnd", 0, Unset, b, f)>>, Unset, fw) :
     L \in {NoDist, Const(2)}, b \in {0, 2}, f \in {Unset, Half}, fw \in {Unset, Half}}
\* a neighbour that changes state on every completion kind (and back on the matching end / next event)
Follower ==
  Mach(0, Unset, 0, Unset,
       <<St(NoAction, NoCtr, NoCtr, [BlockingBegin |-> Always(1), PaddingSent |-> Always(1), TimerBegin |-> Always(1)]),
         St(NoAction, NoCtr, NoCtr, [BlockingEnd |-> Always(0), NormalSent |-> Always(0), BlockingBegin |-> Always(0)])>>)
LimKinds == {"pad", "block", "timer"}
LimConfs(Ls) ==
  {Cf(<<LimM(k, L)>>, Unset, Unset) : k \in LimKinds, L \in Ls}
  \cup {Cf(<<LimStartM(k, L, f)>>, Unset, Unset) : k \in LimKinds, L \in Ls, f \in {Unset, Half}}
  \cup {Cf(<<LimCzM(k, L)>>, Unset, Unset) : k \in LimKinds, L \in Ls}
LimConfs2(Ls) ==
  {Cf(<<LimM(k1, L), LimStartM(k2, L, Unset)>>, Unset, Unset) : k1 \in LimKinds, k2 \in LimKinds, L \in Ls}

---------------------------------------------------------------------------
\* C08: counters. State 0 -> 1 on NormalSent applies (ca, cb); 1 -> 0 on
\* NormalRecv applies the "back" pair; CounterZero moves to state 2 (pads).
CtrM(ca1, cb1, ca0, cb0) ==
  Mach(1000, Unset, 0, Unset,
       <<St(NoAction, ca0, cb0, [NormalSent |-> Always(1), TunnelRecv |-> Always(0)]),
         St(Pad(FALSE, FALSE, Const(5), NoDist), ca1, cb1,
            [NormalRecv |-> Always(0), NormalSent |-> Always(1), CounterZero |-> Always(2)]),
         St(Pad(TRUE, FALSE, Const(7), NoDist), NoCtr, Ctr("dec"),
            [NormalSent |-> Always(0), CounterZero |-> Always(0)])>>)
CtrSpecs == {NoCtr, Ctr("inc"), Ctr("dec"), Ctr("set"), CtrDist("inc", OneOf({0, 2})),
             CtrDist("set", OneOf({0, HUGE})), CtrDist("dec", Const(2)),
             CtrCopy("inc"), CtrCopy("dec"), CtrCopy("set")}
CtrConfsA(SpecsA) ==
  {Cf(<<CtrM(a1, Ctr("inc"), a0, NoCtr)>>, Unset, Unset) : a1 \in SpecsA, a0 \in {Ctr("dec"), CtrDist("set", OneOf({0, HUGE}))}}
CtrConfsAB(Specs) ==
  {Cf(<<CtrM(a1, b1, Ctr("dec"), Ctr("dec"))>>, Unset, Unset) : a1 \in Specs, b1 \in Specs}
\* two machines zeroing the same counter in the same call (F2)
CtrTwin == CtrM(Ctr("inc"), NoCtr, Ctr("dec"), NoCtr)
CtrConfs2 == {Cf(<<CtrTwin, CtrTwin>>, Unset, Unset),
              Cf(<<CtrTwin, CtrM(NoCtr, Ctr("inc"), NoCtr, Ctr("dec"))>>, Unset, Unset)}

---------------------------------------------------------------------------
\* C09: signalling machines.
\* SigOn(ev): signals whenever ev is seen; pads when signalled.
SigOn(ev) ==
  Mach(1000, Unset, 0, Unset,
       <<St(NoAction, NoCtr, NoCtr,
            (ev :> <<T(SIGNAL, 16)>>) @@ [Signal |-> Always(1)]),
         St(Pad(FALSE, FALSE, Const(3), NoDist), NoCtr, NoCtr,
            (ev :> <<T(SIGNAL, 16)>>) @@ [Signal |-> Always(1)])>>)
\* answers a signal with a signal (possibly), or ends
SigEcho(w) ==
  Mach(1000, Unset, 0, Unset,
       <<St(NoAction, NoCtr, NoCtr, [Signal |-> <<T(SIGNAL, w)>>, TunnelRecv |-> <<T(END, 16)>>])>>)
\* signals on ev and answers signals with a signal
SigBothOn(ev, w) ==
  Mach(1000, Unset, 0, Unset,
       <<St(NoAction, NoCtr, NoCtr, (ev :> <<T(SIGNAL, 16)>>) @@
                                    [Signal |-> <<T(SIGNAL, w)>>, TunnelRecv |-> <<T(END, 16)>>])>>)
SigBoth(w) == SigBothOn("NormalSent", w)
\* signals when its limit is reached / when its counter reaches zero
SigOnLimit ==
  Mach(1000, Unset, 0, Unset,
       <<St(Pad(FALSE, FALSE, Const(1), Const(1)), NoCtr, NoCtr,
            [PaddingSent |-> Always(0), LimitReached |-> <<T(SIGNAL, 16)>>, Signal |-> Always(0)])>>)
SigOnZero ==
  Mach(1000, Unset, 0, Unset,
       <<St(NoAction, Ctr("dec"), NoCtr, [NormalSent |-> Always(1), CounterZero |-> <<T(SIGNAL, 16)>>]),
         St(NoAction, Ctr("inc"), NoCtr, [NormalSent |-> Always(0), Signal |-> Always(1)])>>)
SigMachines == {SigOn("NormalSent"), SigOn("NormalRecv"), SigEcho(16), SigEcho(8), SigBoth(16),
                SigBoth(8), SigBothOn("NormalRecv", 8), SigOnLimit, SigOnZero}
SigConfs1 == {Cf(<<a>>, Unset, Unset) : a \in SigMachines}
SigConfs2 == {Cf(<<a, b>>, Unset, Unset) : a \in SigMachines, b \in SigMachines}
SigConfs3 == {Cf(<<a, b, c>>, Unset, Unset) :
                a \in {SigOn("NormalSent"), SigBoth(16)},
                b \in {SigOn("NormalRecv"), SigEcho(16), SigBoth(16)},
                c \in {SigEcho(8), SigOnLimit, SigOn("NormalSent")}}

---------------------------------------------------------------------------
\* C01 / C04 / C05 core: small machines, one feature pair each
\* dyadic probabilities with a residual, END, self-loop and state change
ProbM ==
  Mach(1000, Unset, 1000, Unset,
       <<St(Pad(TRUE, TRUE, Const(1), NoDist), NoCtr, NoCtr,
            [NormalSent |-> <<T(1, 4), T(0, 8)>>, PaddingSent |-> <<T(1, 16)>>]),
         St(Block(TRUE, FALSE, OneOf({0, HUGE}), Const(4), NoDist), NoCtr, NoCtr,
            [NormalSent |-> <<T(0, 8), T(END, 4), T(SIGNAL, 4)>>,
             BlockingBegin |-> <<T(0, 12)>>, Signal |-> Always(0)])>>)
\* cancel actions and timers
TimerM ==
  Mach(0, Unset, 0, Unset,
       <<St(UpdTimer(FALSE, OneOf({0, 3}), Const(2)), NoCtr, NoCtr,
            [TimerBegin |-> Always(0), TimerEnd |-> Always(1), LimitReached |-> Always(2),
             NormalSent |-> Always(0)]),
         St(Cancel("All"), NoCtr, NoCtr, [NormalSent |-> Always(0), TimerEnd |-> Always(2)]),
         St(Cancel("Internal"), NoCtr, NoCtr, [TimerBegin |-> Always(0), NormalSent |-> <<T(END, 16)>>])>>)
\* counter chain re-entering the origin through CounterZero, both counters
ChainM ==
  Mach(1000, Unset, 0, Unset,
       <<St(Pad(FALSE, FALSE, Const(9), NoDist), Ctr("inc"), Ctr("inc"),
            [NormalSent |-> Always(1), CounterZero |-> Always(0)]),
         St(Pad(FALSE, TRUE, Const(8), NoDist), Ctr("dec"), CtrCopy("dec"),
            [CounterZero |-> Always(0), NormalSent |-> Always(1), NormalRecv |-> Always(0)])>>)
\* samples far beyond the 24 h cap for every timeout / duration
HugeM ==
  Mach(1000, Unset, 1000, Unset,
       <<St(Pad(FALSE, FALSE, Const(HUGE), NoDist), NoCtr, NoCtr,
            [NormalSent |-> Always(1), NormalRecv |-> Always(0)]),
         St(Block(FALSE, FALSE, Const(HUGE), Const(HUGE), NoDist), NoCtr, NoCtr,
            [NormalSent |-> Always(2), NormalRecv |-> Always(1)]),
         St(UpdTimer(FALSE, Const(HUGE), NoDist), NoCtr, NoCtr,
            [NormalSent |-> Always(0), NormalRecv |-> Always(2)])>>)
\* schedules an action and can end inside the same call (batch), ends with an armed timer
EndM ==
  Mach(1000, Unset, 1000, Unset,
       <<St(NoAction, NoCtr, NoCtr, [NormalSent |-> Always(1), TimerBegin |-> Always(2)]),
         St(Pad(FALSE, FALSE, Const(7), NoDist), NoCtr, NoCtr,
            [NormalRecv |-> <<T(END, 16)>>, NormalSent |-> Always(2), PaddingSent |-> <<T(END, 8)>>]),
         St(UpdTimer(FALSE, Const(3), Const(1)), Ctr("inc"), NoCtr,
            [NormalRecv |-> <<T(END, 16)>>, TimerBegin |-> Always(2), LimitReached |-> <<T(END, 16)>>,
             NormalSent |-> Always(0)])>>)
CoreMachines == {ProbM, TimerM, ChainM, HugeM, LimM("pad", Const(1)), SigBoth(8),
                 BlockM(TRUE, 2, Half), PadM(1, Half)}
CoreConfs0 == {Cf(<<>>, Unset, Unset), Cf(<<>>, Half, Half)}
CoreConfs1 == {Cf(<<a>>, Unset, Unset) : a \in CoreMachines}
CoreConfs2 == {Cf(<<a, b>>, fw, fw) : a \in {ProbM, ChainM, SigBoth(8)}, b \in {TimerM, ProbM, PadM(1, Half)},
                                       fw \in {Unset, Half}}

---------------------------------------------------------------------------
\* C10: X is deterministic, never signals, has no transitions on Signal
DetTimerM ==
  Mach(0, Unset, 0, Unset,
       <<St(UpdTimer(FALSE, Const(3), Const(2)), NoCtr, NoCtr,
            [TimerBegin |-> Always(0), TimerEnd |-> Always(1), LimitReached |-> Always(1),
             NormalSent |-> Always(0)]),
         St(Cancel("All"), NoCtr, NoCtr, [NormalSent |-> Always(0), TimerEnd |-> <<T(END, 16)>>])>>)
\* a CounterZero whose delivery is visible in the returned actions
CzVisM ==
  Mach(1000, Unset, 0, Unset,
       <<St(NoAction, NoCtr, NoCtr, [NormalSent |-> Always(1)]),
         St(NoAction, Ctr("inc"), NoCtr, [NormalRecv |-> Always(2), NormalSent |-> Always(1)]),
         St(NoAction, Ctr("dec"), NoCtr, [CounterZero |-> Always(3), NormalSent |-> Always(1)]),
         St(Pad(FALSE, FALSE, Const(6), NoDist), NoCtr, NoCtr, [NormalSent |-> Always(0)])>>)
XMachines == {CzVisM, PadM(1, Half), PadM(0, Unset), BlockM(TRUE, 2, Half), BlockM(FALSE, 0, Unset),
              LimM("pad", Const(1)), LimM("block", Const(1)), LimM("timer", Const(2)),
              LimCzM("pad", Const(2)), CtrTwin, ChainM, DetTimerM, HugeM}
YMachines == {CzVisM, PadM(1, Half), BlockM(TRUE, 2, Half), LimM("pad", Const(1)), CtrTwin, ChainM, ProbM,
              SigOn("NormalSent"), SigBoth(8), DetTimerM}
PairFamily(id) ==
  CASE id = "quick"    -> {<<x, y>> : x \in XMachines, y \in {CzVisM, ProbM, SigOn("NormalSent"), BlockM(TRUE, 2, Half)}}
    [] id = "thorough" -> {<<x, y>> : x \in XMachines, y \in YMachines}

---------------------------------------------------------------------------
\* C05 thorough: lazily synthesised tables. Actions and counters are fixed, every transition vector
\* of the listed events is chosen the first time it is consulted (Framework!EntryChoices).
LazyVec == <<T(-9, 0)>>
LazyTrans(E) == [e \in E |-> LazyVec]
LazyEvents == {"NormalSent", "PaddingSent", "LimitReached", "CounterZero", "Signal"}
LazyM ==
  Mach(1000, Unset, 1000, Unset,
       <<St(Pad(FALSE, TRUE, Const(4), Const(1)), Ctr("inc"), NoCtr, LazyTrans(LazyEvents)),
         St(Block(TRUE, FALSE, Const(2), Const(6), NoDist), Ctr("dec"), NoCtr, LazyTrans(LazyEvents))>>)
LazyConfs == {Cf(<<LazyM>>, Unset, Unset), Cf(<<LazyM, SigBoth(8)>>, Unset, Unset)}

---------------------------------------------------------------------------
FamilyConfs(id) ==
  CASE id = "pad-quick"    -> PadConfs({0, 1}, {Unset, Half}, {Unset, Half})
    [] id = "pad-thorough" -> PadConfs({0, 1, 2}, {Unset, Quarter, Half, One}, {Unset, Quarter, Half, One})
    [] id = "block-quick"  -> BlockConfs({0, 2}, {Unset, Half}, {Unset, Half})
    [] id = "block-thorough" -> BlockConfs2({0, 2}, {Unset, Quarter, One}, {Unset, Half})
    [] id = "pad-reenter"  -> PadReenterConfs
    [] id = "block-reenter" -> BlockReenterConfs
    [] id = "limit-quick"  -> LimConfs({Const(0), Const(1), Const(2)})
    [] id = "limit-reenter" -> {Cf(<<LimReenterM(k, OneOf({0, 2}))>>, Unset, Unset) : k \in LimKinds}
                               \cup {Cf(<<LimReenterM("pad", Const(1))>>, Unset, Unset)}
    [] id = "limit-duo"    -> {Cf(<<LimM(k, Const(1)), Follower>>, Unset, Unset) : k \in LimKinds}
                               \cup {Cf(<<Follower, LimStartM(k, Const(2), Unset)>>, Unset, Unset) : k \in LimKinds}
    [] id = "limit-thorough" -> LimConfs({Const(0), Const(1), Const(2), OneOf({0, 1, 2})})
                                \cup LimConfs2({Const(1), OneOf({0, 2})})
    [] id = "ctr-quick"    -> CtrConfsA(CtrSpecs) \cup CtrConfs2
    [] id = "ctr-thorough" -> CtrConfsAB(CtrSpecs) \cup CtrConfsA(CtrSpecs) \cup CtrConfs2
    [] id = "sig-quick"    -> SigConfs1 \cup SigConfs2
    [] id = "sig-duo"      -> {Cf(<<a, b>>, Unset, Unset) : a \in {SigOn("NormalSent"), SigBoth(8)},
                                                             b \in {SigOn("NormalSent"), SigEcho(16), SigBothOn("NormalRecv", 8)}}
    [] id = "sig-trio"     -> SigConfs3
    [] id = "sig-thorough" -> SigConfs1 \cup SigConfs2 \cup SigConfs3
    [] id = "end-quick"    -> {Cf(<<EndM>>, Unset, Unset), Cf(<<EndM, Inert>>, Unset, Unset), Cf(<<Inert, EndM>>, Unset, Unset)}
    [] id = "lazy"         -> LazyConfs
    [] id = "core-quick"   -> CoreConfs0 \cup CoreConfs1
    [] id = "core-thorough" -> CoreConfs0 \cup CoreConfs1 \cup CoreConfs2

\* clock steps between calls (TLC configuration files cannot hold negative numbers)
TimeStepsOf(id) ==
  CASE id = "one"   -> {1}
    [] id = "mixed" -> {0, 1, -2}
    [] id = "wide"  -> {0, 1, 3, -2}

\* symbolic alphabets of the non-interference spec: "x" / "y" address the two
\* machines, "u" an unknown id, "-" marks a global event
SymGlob(E) == {<<e, "-">> : e \in E}
SymAddr(E, Ws) == {<<e, w>> : e \in E, w \in Ws}
SymAlphabetOf(id) ==
  CASE id = "small" -> SymGlob({"NormalSent", "NormalRecv", "BlockingEnd"})
                       \cup SymAddr({"PaddingSent", "BlockingBegin", "TimerBegin"}, {"x", "y"})
    [] id = "full"  -> SymGlob(ExtKinds \ WithMachine) \cup SymAddr(WithMachine, {"x", "y", "u"})

\* alphabets: machine ids 0, 1 and an unknown one (5)
Glob(E) == {Ext(e, -1) : e \in E}
Addr(E, Ids) == {Ext(e, i) : e \in E, i \in Ids}
AlphabetOf(id) ==
  CASE id = "pad"   -> Glob({"NormalSent", "NormalRecv"}) \cup Addr({"PaddingSent"}, {0, 1, 5})
    [] id = "block" -> Glob({"BlockingEnd", "NormalSent"}) \cup Addr({"BlockingBegin"}, {0, 5})
    [] id = "limit" -> Glob({"NormalSent", "NormalRecv", "TunnelRecv"})
                       \cup Addr({"PaddingSent", "BlockingBegin", "TimerBegin"}, {0, 1})
                       \cup Addr({"PaddingSent"}, {5})
    [] id = "ctr"   -> Glob({"NormalSent", "NormalRecv", "TunnelRecv"})
    [] id = "sig"   -> Glob({"NormalSent", "NormalRecv", "TunnelRecv"}) \cup Addr({"PaddingSent"}, {0, 1, 2})
    [] id = "core"  -> Glob({"NormalSent", "NormalRecv", "BlockingEnd", "TunnelSent"})
                       \cup Addr({"PaddingSent", "BlockingBegin", "TimerBegin", "TimerEnd"}, {0, 5})
    [] id = "lazy"  -> Glob({"NormalSent"}) \cup Addr({"PaddingSent"}, {0})
    [] id = "end"   -> Glob({"NormalSent", "NormalRecv"}) \cup Addr({"PaddingSent", "TimerBegin", "TimerEnd"}, {0, 1})
    [] id = "full"  -> Glob(ExtKinds \ WithMachine) \cup Addr(WithMachine, {0, 1, 5})
=============================================================================
