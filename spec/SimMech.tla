------------------------------- MODULE SimMech -------------------------------
(***************************************************************************)
(* Mechanism of the simulator's main loop as pure operators over a state    *)
(* record Z (crates/maybenot-simulator/src/lib.rs: sim_advanced, pick_next, *)
(* do_scheduled_action, do_internal_timer, trigger_update; network.rs:      *)
(* sim_network_stack; queue_peek.rs), so that the same transition relation  *)
(* is driven by TLC's nondeterminism (Simulator.tla) and by recorded        *)
(* executions of the real simulator (SimMechTrace.tla).                     *)
(*                                                                         *)
(*   ZChoices(Z, Oracle)  the enabled steps: fire an internal timer, fire   *)
(*                an action timer (both without advancing time, as          *)
(*                pick_next's recursion does), expire blocking, pop a       *)
(*                queued event or the head of a base trace, finish; the     *)
(*                steps that process an event carry the actions the side's  *)
(*                framework returns (an oracle function machine -> action)  *)
(*   ZStep(Z, c)  successor state and the lines the hooks record for it     *)
(*                (fired / ev / act / exit)                                 *)
(*                                                                         *)
(* Aggregate base delays and the pps bottleneck. With cf.predict the model  *)
(* computes WHEN the code pushes an aggregate delay and by how much         *)
(* (delay.rs: AggExpire - blocking expiry with a buffered packet,            *)
(* AggReplace - bypass-replace padding, AggPps - a packet delayed by the     *)
(* bottleneck; network.rs: PpsExtra - the one-second window count against    *)
(* the packets-per-second limit, DefaultPps - parse_trace's 10 x busiest     *)
(* 100 ms window). Without cf.predict they are inputs of a step (c.agg,      *)
(* c.extra: none / 0). What happens to a pushed delay afterwards - the two  *)
(* pending entries per push and their due times, popping them before        *)
(* anything else that is due, shifting the base trace of that side - is     *)
(* modelled in both modes. The order among same-time, same-priority candidates is         *)
(* nondeterministic. `Variant`: "F7" bypass     *)
(* flag overwritten, "F8" zero-duration UpdateTimer dropped, "F6" blocking   *)
(* of zero length as it was coded before the repair (not set when no         *)
(* blocking is active; BlockingEnd returned ahead of the BlockingBegin of    *)
(* the same instant). As repaired: an expiry gives way to the BlockingBegin  *)
(* events of its side that are queued for that instant.                      *)
(***************************************************************************)
EXTENDS Integers, Sequences, FiniteSets, TLC

CONSTANT Variant

Sides == {1, 2}
Other(s) == 3 - s
IsC(s) == s = 1

NoA == [on |-> FALSE, kind |-> "-", due |-> 0, bypass |-> FALSE, replace |-> FALSE, duration |-> 0, m |-> 0]
NoT == [on |-> FALSE, due |-> 0]
NoneAct == [kind |-> "None", bypass |-> FALSE, replace |-> FALSE, timer |-> "-", timeout |-> 0, duration |-> 0]

\* queued event
Ev(id, e, m, t, p, bp, rp) == [id |-> id, e |-> e, m |-> m, t |-> t, p |-> p, bp |-> bp, rp |-> rp]

InitSide(base, n) ==
  [base |-> base, q |-> {}, act |-> [i \in 1..n |-> NoA], tim |-> [i \in 1..n |-> NoT],
   blk |-> [on |-> FALSE, until |-> 0], byp |-> FALSE]

\* a trace is a sequence of [t, s]; the server's sends are the client's receives, one delay earlier
BaseOf(tr, s, delay) ==
  LET mine == SelectSeq(tr, LAMBDA x : x.s = (s = 1))
  IN [i \in 1..Len(mine) |-> IF s = 1 THEN mine[i].t ELSE mine[i].t - delay]
MinOf(S) == CHOOSE x \in S : \A y \in S : x <= y
StartOf(tr, delay) ==
  MinOf({BaseOf(tr, 1, delay)[i] : i \in 1..Len(BaseOf(tr, 1, delay))}
        \cup {BaseOf(tr, 2, delay)[i] : i \in 1..Len(BaseOf(tr, 2, delay))})

\* parse_trace: the default packets-per-second limit is ten times the busiest 100 ms window of
\* the trace's sent lines or received lines (times as written in the trace, which is sorted)
DefaultPps(tr) ==
  LET cnt(i) == Cardinality({j \in 1..i : tr[j].s = tr[i].s /\ tr[i].t - tr[j].t <= 100000})
      m == IF Len(tr) = 0 THEN 0 ELSE CHOOSE x \in {cnt(i) : i \in 1..Len(tr)} : \A y \in {cnt(i) : i \in 1..Len(tr)} : y <= x
  IN 10 * m
\* the delay added per packet above the limit: one second divided by the limit, in nano-seconds
\* as the code computes it; -1 when that is not a whole number of micro-seconds
AddUs(pps) == IF pps <= 0 THEN -1
              ELSE LET ns == 1000000000 \div pps IN IF ns % 1000 = 0 THEN ns \div 1000 ELSE -1

\* cf = [delay, nc, ns, cont, maxEvents] and optionally [predict, pps]
Predict(Z) == "predict" \in DOMAIN Z.cf /\ Z.cf.predict
ZInit(tr, cf, budget) ==
  [cf |-> cf, win |-> <<<<>>, <<>>>>, now |-> StartOf(tr, cf.delay),
   sd |-> <<InitSide(BaseOf(tr, 1, cf.delay), cf.nc), InitSide(BaseOf(tr, 2, cf.delay), cf.ns)>>,
   left |-> budget, nev |-> 0, nid |-> 1, done |-> FALSE,
   agg |-> <<0, 0>>,          \* aggregate base delay per side
   pending |-> {}]            \* pending aggregate delays [t, d, s, id]

NMach(Z, s) == IF s = 1 THEN Z.cf.nc ELSE Z.cf.ns

---------------------------------------------------------------------------
\* candidates of pick_next
Inf == 2000000000
MinOr(S) == IF S = {} THEN Inf ELSE MinOf(S)
ActCands(Z) == {c \in UNION {{<<s, i>> : i \in 1..NMach(Z, s)} : s \in Sides} :
                  Z.sd[c[1]].act[c[2]].on /\ Z.sd[c[1]].act[c[2]].due >= Z.now}
TimCands(Z) == {c \in UNION {{<<s, i>> : i \in 1..NMach(Z, s)} : s \in Sides} :
                  Z.sd[c[1]].tim[c[2]].on /\ Z.sd[c[1]].tim[c[2]].due >= Z.now}
BlkCands(Z) == {s \in Sides : Z.sd[s].blk.on}
\* is a queued TunnelSent held back by the blocking of its side?
Held(Z, s, e) == e.e = "TunnelSent" /\ Z.sd[s].blk.on /\ ~(Z.sd[s].byp /\ e.bp)
EffTime(Z, s, e) == IF Held(Z, s, e) /\ Z.sd[s].blk.until > e.t THEN Z.sd[s].blk.until ELSE e.t
AtLeastNow(Z, t) == IF t < Z.now THEN Z.now ELSE t
BaseTime(Z, s) == Z.sd[s].base[1] + Z.agg[s]
QCandTimes(Z) == UNION {{EffTime(Z, s, e) : e \in Z.sd[s].q}
                        \cup (IF Z.sd[s].base # <<>> THEN {BaseTime(Z, s)} ELSE {}) : s \in Sides}
ST(Z) == MinOr({Z.sd[c[1]].act[c[2]].due : c \in ActCands(Z)})
IT(Z) == MinOr({Z.sd[c[1]].tim[c[2]].due : c \in TimCands(Z)})
BT(Z) == MinOr({Z.sd[s].blk.until : s \in BlkCands(Z)})
QT(Z) == LET m == MinOr(QCandTimes(Z)) IN IF m = Inf THEN Inf ELSE AtLeastNow(Z, m)
NT(Z) == LET m == MinOr({x.t : x \in Z.pending}) IN IF m = Inf THEN Inf ELSE AtLeastNow(Z, m)
Nothing(Z) == ST(Z) = Inf /\ IT(Z) = Inf /\ BT(Z) = Inf /\ QT(Z) = Inf /\ NT(Z) = Inf
\* priorities at equal times: aggregate delay, blocking expiry, queue, internal timer, action timer
AggFirst(Z) == NT(Z) # Inf /\ NT(Z) <= ST(Z) /\ NT(Z) <= IT(Z) /\ NT(Z) <= BT(Z) /\ NT(Z) <= QT(Z)
BlkFirst(Z) == ~AggFirst(Z) /\ BT(Z) <= ST(Z) /\ BT(Z) <= IT(Z) /\ BT(Z) <= QT(Z)
QueueNext(Z) == ~AggFirst(Z) /\ ~BlkFirst(Z) /\ QT(Z) <= ST(Z) /\ QT(Z) <= IT(Z)
TimerNext(Z) == ~AggFirst(Z) /\ ~BlkFirst(Z) /\ ~QueueNext(Z) /\ IT(Z) <= ST(Z)
ActionNext(Z) == ~AggFirst(Z) /\ ~BlkFirst(Z) /\ ~QueueNext(Z) /\ ~TimerNext(Z)

\* the five candidate times computed once (TLC re-evaluates operator applications: steps take P)
Times(Z) == [st |-> ST(Z), it |-> IT(Z), bt |-> BT(Z), qt |-> QT(Z), nt |-> NT(Z)]
PNothing(P) == P.st = Inf /\ P.it = Inf /\ P.bt = Inf /\ P.qt = Inf /\ P.nt = Inf
PAggFirst(P) == P.nt # Inf /\ P.nt <= P.st /\ P.nt <= P.it /\ P.nt <= P.bt /\ P.nt <= P.qt
PBlkFirst(P) == ~PAggFirst(P) /\ P.bt <= P.st /\ P.bt <= P.it /\ P.bt <= P.qt
PQueueNext(P) == ~PAggFirst(P) /\ ~PBlkFirst(P) /\ P.qt <= P.st /\ P.qt <= P.it
PTimerNext(P) == ~PAggFirst(P) /\ ~PBlkFirst(P) /\ ~PQueueNext(P) /\ P.it <= P.st
PActionNext(P) == ~PAggFirst(P) /\ ~PBlkFirst(P) /\ ~PQueueNext(P) /\ ~PTimerNext(P)

---------------------------------------------------------------------------
\* lines
EvLine(c, e, m, t, p, bp, rp) == [k |-> "ev", c |-> c, e |-> e, m |-> m, t |-> t, p |-> p, bp |-> bp, rp |-> rp]
ActLine(c, t, a, m) == [k |-> "act", c |-> c, t |-> t,
                        a |-> [kind |-> a.kind, m |-> m, bypass |-> a.bypass, replace |-> a.replace,
                               timer |-> a.timer, timeout |-> a.timeout, duration |-> a.duration]]
FiredLine(c, m, t, w) == [k |-> "fired", c |-> c, m |-> m, t |-> t, w |-> w]
ExitLine(reason, it) == [k |-> "exit", reason |-> reason, it |-> it, len |-> it]
AggPopLine(c, d) == [k |-> "aggpop", c |-> c, d |-> d]
AggLine(c, d) == [k |-> "agg", c |-> c, d |-> d]
RecvLine(c, t, p) == [k |-> "recv", c |-> c, t |-> t, p |-> p]
ReplLine(c, requeued) == [k |-> "repl", c |-> c, requeued |-> requeued]

---------------------------------------------------------------------------
\* choices: [kind, s, i, ev, f, agg, extra]; agg = amount of an aggregate delay pushed by this
\* step (-1 none), extra = bottleneck delay added to the packet sent by this step
\* rh: when buffered padding and normal packets tie for the head of the queue a replacing padding
\* looks at, the heap's order among them is unspecified - rh says whether a normal one is on top
Choice(kind, s, i, ev, f) == [kind |-> kind, s |-> s, i |-> i, ev |-> ev, f |-> f, agg |-> -1, extra |-> 0, rh |-> TRUE]
NoEv == Ev(0, "-", -1, 0, FALSE, FALSE, FALSE)

\* the events that can be processed next, as <<side, event>>; base heads are NormalSent with id 0
QueueCandsAt(Z, qt) ==
  {c \in UNION {{<<x, y>> : y \in Z.sd[x].q} : x \in Sides} :
     AtLeastNow(Z, EffTime(Z, c[1], c[2])) = qt}
  \cup {<<s, Ev(0, "NormalSent", -1, qt, FALSE, FALSE, FALSE)>> : s \in
          {x \in Sides : Z.sd[x].base # <<>> /\ AtLeastNow(Z, BaseTime(Z, x)) = qt}}
QueueCands(Z) == QueueCandsAt(Z, QT(Z))
\* ties between the sides' expiries go to the server
BlkSideAt(Z, bt) == IF 2 \in BlkCands(Z) /\ Z.sd[2].blk.until = bt THEN 2 ELSE 1
BlkSide(Z) == BlkSideAt(Z, BT(Z))

\* the buffered packets a replacing padding of side s may find on top (queue.rs peek_blocking):
\* under bypassable blocking only the packets without the bypass flag are buffered; otherwise the
\* heap of flagged packets is looked at as well and wins ties
ReplHead(Z, s) ==
  LET B  == {x \in Z.sd[s].q : x.e = "TunnelSent" /\ ~x.bp}
      BB == {x \in Z.sd[s].q : x.e = "TunnelSent" /\ x.bp}
      first(S) == {x \in S : \A y \in S : x.t <= y.t}
  IN IF Z.sd[s].byp \/ BB = {} THEN first(B)
     ELSE IF B = {} THEN first(BB)
     ELSE IF (CHOOSE x \in first(BB) : TRUE).t <= (CHOOSE x \in first(B) : TRUE).t THEN first(BB) ELSE first(B)
\* does the replacing padding e of side s find a normal packet on top of the buffered ones? (when
\* padding and normal packets tie within the heap, rh says which is on top)
ReplHit(Z0, s, e, rh) ==
  LET head == ReplHead(Z0, s) IN
  e.e = "PaddingSent" /\ e.rp /\ (\E x \in head : ~x.p) /\ (rh \/ \A x \in head : ~x.p)
ReplTie(Z0, s, e) ==
  LET head == ReplHead(Z0, s) IN
  e.e = "PaddingSent" /\ e.rp /\ (\E x \in head : ~x.p) /\ (\E x \in head : x.p)


\* blocking of side s expires at bt while a BlockingBegin of that side is still queued for that
\* instant (blocking of zero length): that BlockingBegin is processed first (at bt, the blocking
\* still in force), the expiry follows with the next pick
BeginsDue(Z, s, bt) == {x \in Z.sd[s].q : x.e = "BlockingBegin" /\ x.t <= AtLeastNow(Z, bt)}
BlkDeferred(Z, s, bt) == "F6" \notin Variant /\ BeginsDue(Z, s, bt) # {}

\* Oracle(Z, s): the set of functions machine -> action the framework of side s may return
ZChoices(Z, Oracle(_, _)) ==
  LET P == Times(Z) IN
  IF Z.done THEN {}
  ELSE IF PNothing(P) \/ Z.nev >= Z.cf.maxEvents THEN {Choice("finish", 1, 0, NoEv, <<>>)}
  ELSE IF PAggFirst(P) THEN
         {Choice("aggpop", x.s, x.id, NoEv, <<>>) : x \in {y \in Z.pending : AtLeastNow(Z, y.t) = P.nt}}
  ELSE IF PBlkFirst(P) THEN
         IF BlkDeferred(Z, BlkSideAt(Z, P.bt), P.bt)
         THEN UNION {{Choice("queue", BlkSideAt(Z, P.bt), 0, x, f) : f \in Oracle(Z, BlkSideAt(Z, P.bt))} :
                       x \in BeginsDue(Z, BlkSideAt(Z, P.bt), P.bt)}
         ELSE {Choice("blk", BlkSideAt(Z, P.bt), 0, NoEv, f) : f \in Oracle(Z, BlkSideAt(Z, P.bt))}
  ELSE IF PQueueNext(P) THEN
         UNION {{[Choice("queue", c[1], 0, c[2], f) EXCEPT !.rh = h] :
                   f \in Oracle(Z, c[1]),
                   h \in (IF ReplTie([Z EXCEPT !.sd[c[1]].q = @ \ {c[2]}], c[1], c[2]) THEN BOOLEAN ELSE {TRUE})} :
                c \in QueueCandsAt(Z, P.qt)}
  ELSE IF PTimerNext(P) THEN
         {Choice("timer", c[1], c[2], NoEv, <<>>) : c \in {x \in TimCands(Z) : Z.sd[x[1]].tim[x[2]].due = P.it}}
  ELSE   {Choice("action", c[1], c[2], NoEv, <<>>) : c \in {x \in ActCands(Z) : Z.sd[x[1]].act[x[2]].due = P.st}}

---------------------------------------------------------------------------
\* trigger_update: apply the returned actions f[1..n] of one side at time t
RECURSIVE Apply(_, _, _, _, _)
Apply(S, f, i, t, acc) ==
  IF i > Len(f) THEN [S |-> S, acc |-> acc]
  ELSE LET a == f[i] IN
       IF a.kind = "None" THEN Apply(S, f, i + 1, t, acc)
       ELSE IF a.kind = "Cancel"
       THEN LET S1 == IF a.timer \in {"Action", "All"} THEN [S EXCEPT !.act[i] = NoA] ELSE S
                S2 == IF a.timer \in {"Internal", "All"} THEN [S1 EXCEPT !.tim[i] = NoT] ELSE S1
            IN Apply(S2, f, i + 1, t, [acc EXCEPT !.acts = Append(@, <<i - 1, a>>)])
       ELSE IF a.kind \in {"SendPadding", "BlockOutgoing"}
       THEN Apply([S EXCEPT !.act[i] = [on |-> TRUE, kind |-> a.kind, due |-> t + a.timeout, bypass |-> a.bypass,
                                        replace |-> a.replace, duration |-> a.duration, m |-> i - 1]],
                  f, i + 1, t, [acc EXCEPT !.acts = Append(@, <<i - 1, a>>)])
       ELSE \* UpdateTimer
            LET cur == S.tim[i]
                sets == IF "F8" \in Variant
                        THEN a.replace \/ (IF cur.on THEN cur.due ELSE t) < t + a.duration
                        ELSE a.replace \/ ~cur.on \/ cur.due < t + a.duration
            IN Apply(IF sets THEN [S EXCEPT !.tim[i] = [on |-> TRUE, due |-> t + a.duration]] ELSE S,
                     f, i + 1, t,
                     [acc EXCEPT !.acts = Append(@, <<i - 1, a>>),
                                 !.begins = IF sets THEN Append(@, i - 1) ELSE @])

---------------------------------------------------------------------------
\* delay.rs and network.rs: when an aggregate delay is pushed and how large it is (-1: none)
MaxOf(S) == CHOOSE x \in S : \A y \in S : y <= x
SatSub(a, b) == IF a > b THEN a - b ELSE 0
TSof(Z, s) == {x \in Z.sd[s].q : x.e = "TunnelSent"}
\* the next base packet of side s (shifted by the aggregate delay of side a) lies within 1 ms of ref
BaseClose(Z, s, ref, a) == Z.sd[s].base # <<>> /\ SatSub(Z.sd[s].base[1] + Z.agg[a], ref) <= 1000
\* agg_delay_on_blocking_expire: blocking of side s ends at T while packets are buffered
AggExpire(Z, s, T) ==
  LET ts == TSof(Z, s) IN
  IF ts = {} THEN -1
  ELSE LET ht == MinOf({x.t : x \in ts})
           tail == IF Cardinality(ts) > 2 THEN MaxOf({x.t : x \in {y \in ts : y.t - ht <= 1000}}) ELSE ht
       IN IF ~(ht < T) \/ T = tail \/ BaseClose(Z, s, ht, s) THEN -1 ELSE SatSub(T, tail)
\* agg_delay_on_padding_bypass_replace: the buffered normal packet h leaves with a bypass padding at t
AggReplace(Z, s, h, t) ==
  IF \E x \in TSof(Z, s) \ {h} : SatSub(x.t, h.t) <= 100000 THEN -1
  ELSE IF BaseClose(Z, s, h.t, s) THEN -1
  ELSE SatSub(t, h.t)
\* NetworkBottleneck::sample: the packets of side s within one second, against the limit
WinAfter(Z, s, t) == SelectSeq(Append(Z.win[s], t), LAMBDA x : t - x <= 1000000)
PpsExtra(Z, s, t) ==
  LET k == Len(WinAfter(Z, s, t)) - Z.cf.pps
      a == AddUs(Z.cf.pps)
  IN IF Z.cf.pps > 0 /\ k > 0 /\ a > 0 THEN a * k ELSE 0
\* should_delayed_packet_prop_agg_delay (as coded: the base packet is shifted by the CLIENT's
\* aggregate delay on either side)
AggPps(Z, s, t, extra) ==
  IF extra <= 0 THEN -1
  ELSE IF \E x \in TSof(Z, s) : SatSub(x.t, t) <= 100000 THEN -1
  ELSE IF BaseClose(Z, s, t, 1) THEN -1
  ELSE extra
\* main loop body: event e picked on side s at time t, queues already updated in Z0
\* the two pending entries of one push_aggregate_delay(B) at time T on side s
Pushed(Z0, s, T, B) ==
  LET D == Z0.cf.delay
      off(k) == IF k * D > B THEN k * D - B ELSE 0
  IN IF B < 0 THEN {}
     ELSE {[t |-> T + off(IF s = 1 THEN 4 ELSE 1), d |-> B, s |-> 1, id |-> Z0.nid + 30],
           [t |-> T + off(IF s = 1 THEN 3 ELSE 4), d |-> B, s |-> 2, id |-> Z0.nid + 31]}

Process(Z0, s, e, t, f, agg, extra, aggFirst, rh) ==
  LET other == Other(s)
      Sd0 == Z0.sd
      nid == Z0.nid
      \* sim_network_stack
      head == ReplHead(Z0, s)
      Sd1 ==
        CASE e.e = "NormalSent" ->
               [Sd0 EXCEPT ![s].q = @ \cup {Ev(nid, "TunnelSent", -1, t, FALSE, FALSE, FALSE)}]
          [] e.e = "PaddingSent" ->
               IF ReplHit(Z0, s, e, rh)
               THEN LET h == CHOOSE x \in head : ~x.p IN
                    IF ~e.bp THEN Sd0
                    ELSE [Sd0 EXCEPT ![s].q = (@ \ {h}) \cup {[h EXCEPT !.bp = TRUE, !.rp = FALSE]}]
               ELSE [Sd0 EXCEPT ![s].q = @ \cup {Ev(nid, "TunnelSent", -1, t, TRUE, e.bp, e.rp)}]
          [] e.e = "TunnelSent" ->
               [Sd0 EXCEPT ![other].q = @ \cup {Ev(nid, "TunnelRecv", -1,
                                                   t + Z0.cf.delay + extra,
                                                   e.p, FALSE, FALSE)}]
          [] e.e = "TunnelRecv" ->
               [Sd0 EXCEPT ![s].q = @ \cup {Ev(nid, IF e.p THEN "PaddingRecv" ELSE "NormalRecv", -1, t, e.p, FALSE, FALSE)}]
          [] OTHER -> Sd0
      \* trigger_update
      r   == Apply(Sd1[s], f, 1, t, [acts |-> <<>>, begins |-> <<>>])
      S2  == [r.S EXCEPT !.q = @ \cup {Ev(nid + 10 + j, "TimerBegin", r.acc.begins[j], t, FALSE, FALSE, FALSE) :
                                         j \in 1..Len(r.acc.begins)}]
      Sd2 == [Sd1 EXCEPT ![s] = S2]
      used == Len(r.acc.acts)
      aggl == IF agg >= 0 THEN <<AggLine(IsC(s), agg)>> ELSE <<>>
      lines == (IF aggFirst THEN aggl ELSE <<>>)
               \o <<EvLine(IsC(s), e.e, e.m, t, e.p, e.bp, e.rp)>>
               \o (IF aggFirst THEN <<>> ELSE aggl)
               \o (IF ReplHit(Z0, s, e, rh) THEN <<ReplLine(IsC(s), e.bp)>> ELSE <<>>)
               \o (IF e.e = "TunnelSent" THEN <<RecvLine(IsC(other), t + Z0.cf.delay + extra, e.p)>> ELSE <<>>)
               \o [j \in 1..used |-> ActLine(IsC(s), t, r.acc.acts[j][2], r.acc.acts[j][1])]
      \* stop test (no_normal_packets)
      quiet(S) == S.base = <<>> /\ \A x \in S.q : x.e # "TunnelSent" /\ x.e # "TunnelRecv" /\ ~x.p
      stop == ~Z0.cf.cont /\ quiet(Sd2[1]) /\ quiet(Sd2[2])
  IN [Z |-> [Z0 EXCEPT !.sd = Sd2, !.left = @ - used, !.done = stop, !.now = t,
                       !.nev = @ + 1, !.nid = @ + 40,
                       !.win = IF Predict(Z0) /\ e.e = "TunnelSent" THEN [@ EXCEPT ![s] = WinAfter(Z0, s, t)] ELSE @,
                       !.pending = @ \cup Pushed(Z0, s, t, agg)],
      lines |-> IF stop THEN Append(lines, ExitLine("all_normal_processed", Z0.nev + 1)) ELSE lines]

ZStep(Z, c) ==
  CASE c.kind = "finish" ->
         [Z |-> [Z EXCEPT !.done = TRUE], lines |-> <<ExitLine("end", Z.nev)>>]
    [] c.kind = "aggpop" ->
         LET x == CHOOSE y \in Z.pending : y.id = c.i IN
         [Z |-> [Z EXCEPT !.pending = @ \ {x}, !.agg[x.s] = @ + x.d], lines |-> <<AggPopLine(IsC(x.s), x.d)>>]
    [] c.kind = "timer" ->
         LET t == IT(Z) IN
         [Z |-> [Z EXCEPT !.sd[c.s].tim[c.i] = NoT,
                          !.sd[c.s].q = @ \cup {Ev(Z.nid, "TimerEnd", c.i - 1, t, FALSE, FALSE, FALSE)},
                          !.nid = @ + 1],
          lines |-> <<FiredLine(IsC(c.s), c.i - 1, t, "timer")>>]
    [] c.kind = "action" ->
         LET t == ST(Z)  s == c.s  a == Z.sd[s].act[c.i]  m == c.i - 1 IN
         IF a.kind = "SendPadding"
         THEN [Z |-> [Z EXCEPT !.sd[s].act[c.i] = NoA,
                               !.sd[s].q = @ \cup {Ev(Z.nid, "PaddingSent", m, t, TRUE, a.bypass, a.replace)},
                               !.nid = @ + 1],
               lines |-> <<FiredLine(IsC(s), m, t, "action")>>]
         ELSE LET end == t + a.duration
                  cur == IF Z.sd[s].blk.on THEN Z.sd[s].blk.until ELSE t
                  upd == a.replace \/ end > cur \/ ("F6" \notin Variant /\ ~Z.sd[s].blk.on)
                  byp == IF ~upd THEN Z.sd[s].byp
                         ELSE IF "F7" \in Variant \/ ~Z.sd[s].blk.on THEN a.bypass
                         ELSE Z.sd[s].byp /\ a.bypass
              IN [Z |-> [Z EXCEPT !.sd[s].act[c.i] = NoA,
                                  !.sd[s].blk = IF upd THEN [on |-> TRUE, until |-> end] ELSE @,
                                  !.sd[s].byp = byp,
                                  !.sd[s].q = @ \cup {Ev(Z.nid, "BlockingBegin", m, t, FALSE, byp, FALSE)},
                                  !.nid = @ + 1],
                  lines |-> <<FiredLine(IsC(s), m, t, "action")>>]
    [] c.kind = "blk" ->
         LET t == AtLeastNow(Z, BT(Z))
             Z0 == [Z EXCEPT !.sd[c.s].blk = [on |-> FALSE, until |-> 0]]
             agg == IF Predict(Z) THEN AggExpire(Z, c.s, t) ELSE c.agg
         IN Process(Z0, c.s, Ev(0, "BlockingEnd", -1, t, FALSE, FALSE, FALSE), t, c.f, agg, 0, TRUE, TRUE)
    [] c.kind = "queue" ->
         LET t == QT(Z)
             Z0 == IF c.ev.id = 0 THEN [Z EXCEPT !.sd[c.s].base = Tail(@)]
                   ELSE [Z EXCEPT !.sd[c.s].q = @ \ {c.ev}]
             hd == ReplHead(Z0, c.s)
             repl == c.ev.bp /\ ReplHit(Z0, c.s, c.ev, c.rh)
             extra == IF ~Predict(Z) THEN c.extra
                      ELSE IF c.ev.e = "TunnelSent" THEN PpsExtra(Z0, c.s, t) ELSE 0
             agg == IF ~Predict(Z) THEN c.agg
                    ELSE IF repl THEN AggReplace(Z0, c.s, CHOOSE x \in hd : ~x.p, t)
                    ELSE IF c.ev.e = "TunnelSent" THEN AggPps(Z0, c.s, t, extra)
                    ELSE -1
         IN Process(Z0, c.s, c.ev, t, c.f, agg, extra, FALSE, c.rh)
=============================================================================
