--------------------------- MODULE SamplingTrace ---------------------------
(***************************************************************************)
(* C06, implementation side: the harness (sampling_enum) calls the real     *)
(* State::sample_state once for every value k in 0..2^23-1 of the draw      *)
(* (word k << 9) for each probability vector and records, per target, how   *)
(* many draws chose it and the first and last such k, plus the draws that   *)
(* chose nothing and the number of words the code consumed. Each record is  *)
(* checked against Sampling!Pick:                                           *)
(*   dyadic vectors (p_i = w_i / 2^23 exactly, f32 sums exact):             *)
(*       count_i = w_i, bucket i = Cum(i-1) .. Cum(i) - 1, none = R - sum   *)
(*   exact vectors (every p_i a multiple of 2^-30 and every f32 partial sum *)
(*       exact; c_i = Cum(i) in units of 2^-30, one draw = 2^7 units):      *)
(*       bucket i = ceil(c_(i-1) / 2^7) .. ceil(c_i / 2^7) - 1              *)
(*       (Sampling!Share with F = 2^7: probabilities below the resolution   *)
(*       of the draw still own the draws their bucket contains)             *)
(*   other vectors ("up to the resolution of the draw"): the buckets are    *)
(*       contiguous and in declaration order and                            *)
(*       floor(p_i R) - i - 1 <= count_i <= ceil(p_i R) + i + 1             *)
(*       (one unit per f32 addition)                                        *)
(***************************************************************************)
EXTENDS Integers, Sequences, Json, IOUtils, TLC

Rec == ndJsonDeserialize(IOEnv.TRACE)

RECURSIVE SumTo(_, _)
SumTo(s, i) == IF i = 0 THEN 0 ELSE s[i] + SumTo(s, i - 1)

CeilDiv(a, b) == (a + b - 1) \div b

VARIABLES l, bad
vars == <<l, bad>>

\* chained draws (Sampling.tla applied to each draw separately: the inner transition makes a draw
\* of its own): on the G x G grid of (first word, second word), row i moves iff i lies below the
\* declared weight of the outer vector, and then the inner transition is taken on exactly its own
\* weight of the second draw - independently of i
ChainGood(r) ==
  \A i \in 1..r.G : /\ r.moved[i] = (IF i <= r.w1a + r.w1b THEN 1 ELSE 0)
                    /\ r.taken[i] = (IF i <= r.w1a + r.w1b THEN r.w2 ELSE 0)

Good(r) ==
  IF r.k = "chain" THEN ChainGood(r) ELSE
  LET n == r.n IN
  /\ SumTo(r.count, n) + r.none = r.R                       \* every draw accounted for
  /\ r.calls = (IF n = 0 THEN 0 ELSE r.R)                    \* one word per sample, none without a vector
  /\ \A i \in 1..n : r.count[i] > 0 => r.count[i] = r.last[i] - r.first[i] + 1   \* contiguous
  /\ \A i \in 1..n : r.count[i] > 0 => r.first[i] = SumTo(r.count, i - 1)       \* declaration order
  /\ IF r.dyadic
     THEN \A i \in 1..n : r.count[i] = r.w[i]
     ELSE IF r.exact
     THEN \A i \in 1..n : r.count[i] = CeilDiv(r.c[i], 128) - CeilDiv(IF i = 1 THEN 0 ELSE r.c[i - 1], 128)
     ELSE \A i \in 1..n : r.lo[i] - i - 1 <= r.count[i] /\ r.count[i] <= r.hi[i] + i + 1
  /\ (n = 1 /\ r.certain) => r.none = 0                     \* probability 1 is always taken
  /\ (n = 0) => r.none = r.R                                \* nothing declared, nothing taken
  /\ ~r.other_event_moved /\ r.other_event_calls = 0        \* an event without transitions never moves

TInit == l = 1 /\ bad = {}
TNext ==
  \/ /\ l <= Len(Rec)
     /\ bad' = IF Good(Rec[l]) THEN bad ELSE bad \cup {Rec[l].id}
     /\ l' = l + 1
  \/ /\ l = Len(Rec) + 1
     /\ PrintT("TV|DONE|" \o ToJson([lines |-> Len(Rec), bad |-> bad]))
     /\ l' = l + 1 /\ UNCHANGED bad
TSpec == TInit /\ [][TNext]_vars
=============================================================================
