---------------------------- MODULE SimMechTrace ----------------------------
(***************************************************************************)
(* Conformance of the real simulator with the mechanism SimMech: the hook   *)
(* records fired / ev / act / exit of real runs (sim_driver --mech-out; the   *)
(* aggregate delays and the bottleneck's extra delays are computed by the   *)
(* mechanism - cf.predict - and compared with the logged `agg` / `recv` lines) must be explained step by step: every `fired` line is an *)
(* enabled timer / action firing at that time, every `ev` line an enabled   *)
(* blocking expiry or queue pop with exactly those fields, the `act` lines  *)
(* that follow are taken as the framework oracle's answer, and the lines    *)
(* SimMech emits for the step must equal the recorded ones. A divergence    *)
(* ends the scenario and is counted (diagnostic: no listed property says    *)
(* the simulator must match a reference mechanism, DESIGN.md section 9).    *)
(***************************************************************************)
EXTENDS SimMech, Json, IOUtils

Rec == ndJsonDeserialize(IOEnv.TRACE)

VARIABLES l, Z, sid, ok, stats
tvars == <<l, Z, sid, ok, stats>>

EmptyCf == [delay |-> 0, nc |-> 0, ns |-> 0, cont |-> TRUE, maxEvents |-> 1000000000]
Line(i) == Rec[i]
Has(i) == i <= Len(Rec)
SideOf(c) == IF c THEN 1 ELSE 2

\* the act lines that follow line i (same trigger_update)
RECURSIVE ActsFrom(_)
ActsFrom(i) == IF Has(i) /\ Line(i).k = "act" THEN <<Line(i)>> \o ActsFrom(i + 1) ELSE <<>>
\* the oracle's answer as a function machine -> action
OracleOf(acts, n) ==
  [i \in 1..n |->
     LET mine == SelectSeq(acts, LAMBDA x : x.a.m = i - 1)
     IN IF mine = <<>> THEN NoneAct
        ELSE [kind |-> mine[1].a.kind, bypass |-> mine[1].a.bypass, replace |-> mine[1].a.replace,
              timer |-> mine[1].a.timer, timeout |-> mine[1].a.timeout, duration |-> mine[1].a.duration]]
AnyOracle(z, s) == {}     \* not used: choices are read from the trace

Matches(e, ln) == e.e = ln.e /\ e.m = ln.m /\ e.p = ln.p /\ e.bp = ln.bp /\ e.rp = ln.rp

\* the step the recorded lines describe, or a "none" choice when nothing enabled matches
None == Choice("none", 1, 0, NoEv, <<>>)
ChoiceOf ==
  LET ln == Line(l)
      P  == Times(Z)
      live == ~Z.done /\ ~PNothing(P)
  IN
  CASE ln.k = "fired" ->
         LET kind == IF ln.w = "timer" THEN "timer" ELSE "action"
             c == Choice(kind, SideOf(ln.c), ln.m + 1, NoEv, <<>>)
             cands == IF kind = "timer" THEN {x \in TimCands(Z) : Z.sd[x[1]].tim[x[2]].due = P.it}
                      ELSE {x \in ActCands(Z) : Z.sd[x[1]].act[x[2]].due = P.st}
             enabled == live /\ (IF kind = "timer" THEN PTimerNext(P) ELSE PActionNext(P)) /\ <<c.s, c.i>> \in cands
         IN IF enabled THEN c ELSE None
    [] ln.k = "aggpop" ->
         LET C == {x \in Z.pending : AtLeastNow(Z, x.t) = P.nt /\ x.s = SideOf(ln.c) /\ x.d = ln.d}
         IN IF live /\ PAggFirst(P) /\ C # {}
            THEN Choice("aggpop", SideOf(ln.c), (CHOOSE x \in C : TRUE).id, NoEv, <<>>) ELSE None
    [] ln.k = "agg" ->
         \* an aggregate delay pushed by a blocking expiry: the BlockingEnd event follows
         IF Has(l + 1) /\ Line(l + 1).k = "ev" /\ Line(l + 1).e = "BlockingEnd"
            /\ live /\ PBlkFirst(P) /\ BlkSideAt(Z, P.bt) = SideOf(Line(l + 1).c)
         THEN [Choice("blk", SideOf(Line(l + 1).c), 0, NoEv,
                      OracleOf(ActsFrom(l + 2), NMach(Z, SideOf(Line(l + 1).c)))) EXCEPT !.agg = ln.d]
         ELSE None
    [] ln.k = "ev" ->
         LET s == SideOf(ln.c)
             \* an `agg` line right after the event belongs to it only if the event's own `repl` /
             \* `recv` line follows (otherwise it opens the next step, a blocking expiry)
             hasAgg == Has(l + 2) /\ Line(l + 1).k = "agg"
                       /\ ((ln.e = "PaddingSent" /\ Line(l + 2).k = "repl") \/ (ln.e = "TunnelSent" /\ Line(l + 2).k = "recv"))
             ri == IF hasAgg THEN l + 2 ELSE l + 1
             hasRecv == Has(ri) /\ Line(ri).k \in {"recv", "repl"}
             ai == IF hasRecv THEN ri + 1 ELSE ri
             f == OracleOf(ActsFrom(ai), NMach(Z, s))
         IN IF ~live THEN None
            ELSE IF ln.e = "BlockingEnd" /\ PBlkFirst(P)
            THEN (IF BlkSideAt(Z, P.bt) = s /\ ~BlkDeferred(Z, s, P.bt)
                  THEN Choice("blk", s, 0, NoEv, OracleOf(ActsFrom(l + 1), NMach(Z, s)))
                  ELSE None)
            \* (a BlockingBegin queued for the instant its side's blocking ends goes before the expiry)
            ELSE IF ~PQueueNext(P) /\ ~(PBlkFirst(P) /\ ln.e = "BlockingBegin" /\ BlkSideAt(Z, P.bt) = s
                                         /\ BlkDeferred(Z, s, P.bt)) THEN None
            ELSE LET C == {c \in QueueCandsAt(Z, P.qt) : c[1] = s /\ Matches(c[2], ln)}
                 IN IF C # {}
                    THEN [Choice("queue", s, 0, (CHOOSE c \in C : TRUE)[2], f) EXCEPT
                            !.rh = hasRecv /\ Line(ri).k = "repl",
                            !.agg = IF hasAgg THEN Line(l + 1).d ELSE -1,
                            !.extra = IF hasRecv /\ ln.e = "TunnelSent" /\ Line(ri).k = "recv"
                                      THEN Line(ri).t - (ln.t + Z.cf.delay) ELSE 0]
                    ELSE None
    [] ln.k = "exit" ->
         IF ~Z.done /\ PNothing(P) THEN Choice("finish", 1, 0, NoEv, <<>>) ELSE None
    [] OTHER -> None

Explains(r) ==
  /\ l + Len(r.lines) - 1 <= Len(Rec)
  /\ \A i \in 1..Len(r.lines) : Line(l + i - 1) = r.lines[i]

RECURSIVE NextReset(_)
NextReset(i) == IF ~Has(i) \/ Line(i).k = "reset" THEN i ELSE NextReset(i + 1)

TInit == l = 1 /\ Z = ZInit(<<[t |-> 0, s |-> TRUE]>>, EmptyCf, 0) /\ sid = -1 /\ ok = TRUE
         /\ stats = [scenarios |-> 0, explained |-> 0, diverged |-> 0, finished |-> 0]

Reset ==
  /\ Has(l) /\ Line(l).k = "reset"
  /\ sid' = Line(l).id /\ l' = l + 1 /\ ok' = TRUE /\ UNCHANGED <<Z, stats>>
New ==
  /\ Has(l) /\ Line(l).k = "sim"
  /\ LET ln == Line(l)
         cf == [delay |-> ln.delay, nc |-> ln.nc, ns |-> ln.ns, cont |-> ln.cont, maxEvents |-> 1000000000,
                predict |-> TRUE, pps |-> IF ln.pps = -1 THEN DefaultPps(ln.trace) ELSE ln.pps]
     IN Z' = ZInit(ln.trace, cf, 1000000000)
  /\ stats' = [stats EXCEPT !.scenarios = @ + 1]
  /\ l' = l + 1 /\ UNCHANGED <<sid, ok>>
\* an exit line after the run has ended (the second record of a break) or a bound the model does
\* not have (iterations / trace length): the scenario is over
Over ==
  /\ Has(l) /\ Line(l).k = "exit"
  /\ (Z.done \/ Line(l).reason \in {"max_sim_iterations", "max_trace_length"})
  /\ l' = NextReset(l) /\ stats' = [stats EXCEPT !.finished = @ + 1]
  /\ UNCHANGED <<Z, sid, ok>>
Lockstep ==
  /\ Has(l) /\ Line(l).k \in {"fired", "ev", "exit", "agg", "aggpop", "recv", "repl"}
  /\ ~(Line(l).k = "exit" /\ (Z.done \/ Line(l).reason \in {"max_sim_iterations", "max_trace_length"}))
  /\ LET c == ChoiceOf
         r == ZStep(Z, c)
     IN IF c.kind # "none" /\ Explains(r)
        THEN /\ Z' = r.Z /\ l' = l + Len(r.lines)
             /\ stats' = [stats EXCEPT !.explained = @ + Len(r.lines)]
             /\ UNCHANGED <<sid, ok>>
        ELSE /\ PrintT("TV|DIVERGED|" \o ToJson([id |-> sid, l |-> l, got |-> Line(l),
                                                  want |-> IF c.kind = "none" THEN <<"no enabled step matches">> ELSE r.lines,
                                                  now |-> Z.now, st |-> ST(Z), it |-> IT(Z), bt |-> BT(Z), qt |-> QT(Z), nt |-> NT(Z)]))
             /\ l' = NextReset(l) /\ stats' = [stats EXCEPT !.diverged = @ + 1]
             /\ UNCHANGED <<Z, sid, ok>>
Finish ==
  /\ l = Len(Rec) + 1
  /\ PrintT("TV|DONE|" \o ToJson([lines |-> Len(Rec), stats |-> [calls |-> stats.scenarios, explained |-> stats.explained],
                                  mech |-> stats, verdicts |-> {}]))
  /\ l' = l + 1 /\ UNCHANGED <<Z, sid, ok, stats>>
TNext == Reset \/ New \/ Over \/ Lockstep \/ Finish
TSpec == TInit /\ [][TNext]_tvars
=============================================================================
