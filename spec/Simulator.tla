----------------------------- MODULE Simulator -----------------------------
(***************************************************************************)
(* Mechanism specification of the simulator's main loop                     *)
(* (crates/maybenot-simulator/src/lib.rs: sim_advanced, pick_next,          *)
(* do_scheduled_action, do_internal_timer, trigger_update; network.rs:      *)
(* sim_network_stack; queue_peek.rs), composed with the observer SimObs.    *)
(*                                                                         *)
(* Shape: one step per iteration of pick_next (fire an internal timer, fire *)
(* an action timer - both without advancing time, as the code's recursion   *)
(* does) or per iteration of the main loop (expire blocking or pop a queued *)
(* event, run the network stack, ask the framework). The two frameworks are *)
(* an ORACLE: after every processed event each machine of that side may     *)
(* return one action from ActionAlphabet, at most Budget actions in total.  *)
(* Every step emits the lines the hooks record (act / fired / ev / exit),   *)
(* which are folded through SimObs; the properties C14-C18 are the          *)
(* observer's clauses.                                                      *)
(*                                                                         *)
(* Deliberate abstractions (DESIGN.md section 4.4): aggregate base delays   *)
(* and the pps bottleneck are not modelled (no base shifting); the order    *)
(* among same-time, same-priority candidates is nondeterministic.           *)
(* `Variant` names historic defects: "F7" bypass flag overwritten, "F8"     *)
(* zero-duration UpdateTimer dropped. The zero-duration blocking behaviour  *)
(* (F6, a known finding) is modelled as coded.                              *)
(***************************************************************************)
EXTENDS SimObs, TLC

CONSTANTS Variant, MaxPackets, Delay, NC, NS, Budget, ActionAlphabetId, MaxEvents, Cont

\* all time-sorted traces of 1..MaxPackets packets with times in {0, 1, 3} (bursts included)
Traces ==
  {tr \in UNION {[1..k -> [t : {0, 1, 3}, s : BOOLEAN]] : k \in 1..MaxPackets} :
     \A i \in 1..(Len(tr) - 1) : tr[i].t <= tr[i + 1].t}

Sides == {1, 2}
NMach(s) == IF s = 1 THEN NC ELSE NS

NoA == [on |-> FALSE, kind |-> "-", due |-> 0, bypass |-> FALSE, replace |-> FALSE, duration |-> 0, m |-> 0]
NoT == [on |-> FALSE, due |-> 0]

Durs == {0, 1, 3}
ActionAlphabet ==
  LET pads   == {[kind |-> "SendPadding", bypass |-> b, replace |-> r, timer |-> "-", timeout |-> t, duration |-> 0] :
                   b \in BOOLEAN, r \in BOOLEAN, t \in Durs}
      blocks == {[kind |-> "BlockOutgoing", bypass |-> b, replace |-> r, timer |-> "-", timeout |-> t, duration |-> d] :
                   b \in BOOLEAN, r \in BOOLEAN, t \in {0, 1}, d \in Durs}
      timers == {[kind |-> "UpdateTimer", bypass |-> FALSE, replace |-> r, timer |-> "-", timeout |-> 0, duration |-> d] :
                   r \in BOOLEAN, d \in Durs}
      cancels == {[kind |-> "Cancel", bypass |-> FALSE, replace |-> FALSE, timer |-> k, timeout |-> 0, duration |-> 0] :
                   k \in {"Action", "Internal", "All"}}
  IN CASE ActionAlphabetId = "block"  -> blocks \cup {p \in pads : p.timeout \in {0, 1}}
       [] ActionAlphabetId = "action" -> pads \cup {b \in blocks : b.duration = 1} \cup {c \in cancels : c.timer # "Internal"}
       [] ActionAlphabetId = "timer"  -> timers \cup cancels
       [] ActionAlphabetId = "all"    -> pads \cup blocks \cup timers \cup cancels
       [] ActionAlphabetId = "none"   -> {}

VARIABLES now, sd, left, nev, nid, done, o
vars == <<now, sd, left, nev, nid, done, o>>

\* queued event
Ev(id, e, m, t, p, bp, rp) == [id |-> id, e |-> e, m |-> m, t |-> t, p |-> p, bp |-> bp, rp |-> rp]

InitSide(base, n) ==
  [base |-> base, q |-> {}, act |-> [i \in 1..n |-> NoA], tim |-> [i \in 1..n |-> NoT],
   blk |-> [on |-> FALSE, until |-> 0], byp |-> FALSE]

\* a trace is a sequence of [t, s]; the server's sends are the client's receives, one delay earlier
BaseOf(tr, s) ==
  LET mine == SelectSeq(tr, LAMBDA x : x.s = (s = 1))
  IN [i \in 1..Len(mine) |-> IF s = 1 THEN mine[i].t ELSE mine[i].t - Delay]
StartOf(tr) == LET T == {BaseOf(tr, 1)[i] : i \in 1..Len(BaseOf(tr, 1))} \cup {BaseOf(tr, 2)[i] : i \in 1..Len(BaseOf(tr, 2))}
               IN CHOOSE x \in T : \A y \in T : x <= y

Init ==
  \E tr \in Traces :
    /\ now = StartOf(tr)
    /\ sd = <<InitSide(BaseOf(tr, 1), NC), InitSide(BaseOf(tr, 2), NS)>>
    /\ left = Budget /\ nev = 0 /\ nid = 1 /\ done = FALSE
    /\ o = SimObsInit([nc |-> NC, ns |-> NS, delay |-> Delay, pps |-> -1, trace |-> tr,
                       max_it |-> 0, start |-> StartOf(tr)])

---------------------------------------------------------------------------
\* candidates of pick_next

Min(S) == CHOOSE x \in S : \A y \in S : x <= y

ActCands == {<<s, i>> \in (Sides \X (1..(IF NC > NS THEN NC ELSE NS))) :
               i <= NMach(s) /\ sd[s].act[i].on /\ sd[s].act[i].due >= now}
TimCands == {<<s, i>> \in (Sides \X (1..(IF NC > NS THEN NC ELSE NS))) :
               i <= NMach(s) /\ sd[s].tim[i].on /\ sd[s].tim[i].due >= now}
BlkCands == {s \in Sides : sd[s].blk.on}

\* is a queued TunnelSent held back by the blocking of its side?
Held(s, e) == e.e = "TunnelSent" /\ sd[s].blk.on /\ ~(sd[s].byp /\ e.bp)
EffTime(s, e) == IF Held(s, e) /\ sd[s].blk.until > e.t THEN sd[s].blk.until ELSE e.t
SideQ(s) == sd[s].q
QCandTimes == UNION {{EffTime(s, e) : e \in sd[s].q} \cup (IF sd[s].base # <<>> THEN {sd[s].base[1]} ELSE {}) : s \in Sides}

Inf == 1000000
MinOr(S) == IF S = {} THEN Inf ELSE Min(S)
ST == MinOr({sd[c[1]].act[c[2]].due : c \in ActCands})
IT == MinOr({sd[c[1]].tim[c[2]].due : c \in TimCands})
BT == MinOr({sd[s].blk.until : s \in BlkCands})
QT == LET m == MinOr(QCandTimes) IN IF m = Inf THEN Inf ELSE IF m < now THEN now ELSE m

Nothing == ST = Inf /\ IT = Inf /\ BT = Inf /\ QT = Inf

---------------------------------------------------------------------------
\* lines
EvLine(c, e, m, t, p, bp, rp) == [k |-> "ev", c |-> c, e |-> e, m |-> m, t |-> t, p |-> p, bp |-> bp, rp |-> rp]
ActLine(c, t, a, m) == [k |-> "act", c |-> c, t |-> t,
                        a |-> [kind |-> a.kind, m |-> m, bypass |-> a.bypass, replace |-> a.replace,
                               timer |-> a.timer, timeout |-> a.timeout, duration |-> a.duration]]
FiredLine(c, m, t, w) == [k |-> "fired", c |-> c, m |-> m, t |-> t, w |-> w]

RECURSIVE Fold(_, _)
Fold(ob, lines) == IF lines = <<>> THEN ob ELSE Fold(SimObsStep(ob, Head(lines)), Tail(lines))

IsC(s) == s = 1

---------------------------------------------------------------------------
\* pick_next: an internal timer fires (TimerEnd is queued at the expiry, time does not move)
FireTimer ==
  /\ ~done /\ ~Nothing
  /\ ~(BT <= ST /\ BT <= IT /\ BT <= QT) /\ ~(QT <= ST /\ QT <= IT) /\ IT <= ST
  /\ \E c \in TimCands :
       /\ sd[c[1]].tim[c[2]].due = IT
       /\ sd' = [sd EXCEPT ![c[1]].tim[c[2]] = NoT,
                           ![c[1]].q = @ \cup {Ev(nid, "TimerEnd", c[2] - 1, IT, FALSE, FALSE, FALSE)}]
       /\ o' = Fold(o, <<FiredLine(IsC(c[1]), c[2] - 1, IT, "timer")>>)
  /\ nid' = nid + 1
  /\ UNCHANGED <<now, left, nev, done>>

\* pick_next: an action timer fires
FireAction ==
  /\ ~done /\ ~Nothing
  /\ ~(BT <= ST /\ BT <= IT /\ BT <= QT) /\ ~(QT <= ST /\ QT <= IT) /\ ~(IT <= ST)
  /\ \E c \in ActCands :
       LET s == c[1]  a == sd[s].act[c[2]]  m == c[2] - 1 IN
       /\ a.due = ST
       /\ IF a.kind = "SendPadding"
          THEN sd' = [sd EXCEPT ![s].act[c[2]] = NoA,
                                ![s].q = @ \cup {Ev(nid, "PaddingSent", m, ST, TRUE, a.bypass, a.replace)}]
          ELSE LET end == ST + a.duration
                   cur == IF sd[s].blk.on THEN sd[s].blk.until ELSE ST
                   upd == a.replace \/ end > cur
                   byp == IF ~upd THEN sd[s].byp
                          ELSE IF "F7" \in Variant \/ ~sd[s].blk.on THEN a.bypass
                          ELSE sd[s].byp /\ a.bypass
               IN sd' = [sd EXCEPT ![s].act[c[2]] = NoA,
                                   ![s].blk = IF upd THEN [on |-> TRUE, until |-> end] ELSE @,
                                   ![s].byp = byp,
                                   ![s].q = @ \cup {Ev(nid, "BlockingBegin", m, ST, FALSE, byp, FALSE)}]
       /\ o' = Fold(o, <<FiredLine(IsC(s), m, ST, "action")>>)
  /\ nid' = nid + 1
  /\ UNCHANGED <<now, left, nev, done>>

---------------------------------------------------------------------------
\* the framework oracle: the actions returned on side s at time t
\* (one function machine -> action or "none"), and their effect (trigger_update)
NoneAct == [kind |-> "None", bypass |-> FALSE, replace |-> FALSE, timer |-> "-", timeout |-> 0, duration |-> 0]
Returned(s) ==
  IF left = 0 \/ NMach(s) = 0 THEN {[i \in 1..NMach(s) |-> NoneAct]}
  ELSE {f \in [1..NMach(s) -> ActionAlphabet \cup {NoneAct}] :
          Cardinality({i \in 1..NMach(s) : f[i].kind # "None"}) <= left}

RECURSIVE Apply(_, _, _, _, _)
\* apply the actions of machines i..n on side record S at time t; returns [S, q additions, lines]
Apply(S, f, i, t, acc) ==
  IF i > Len(f) THEN [S |-> S, acc |-> acc]
  ELSE LET a == f[i] IN
       IF a.kind = "None" THEN Apply(S, f, i + 1, t, acc)
       ELSE IF a.kind = "Cancel"
       THEN LET S1 == IF a.timer \in {"Action", "All"} THEN [S EXCEPT !.act[i] = NoA] ELSE S
                S2 == IF a.timer \in {"Internal", "All"} THEN [S1 EXCEPT !.tim[i] = NoT] ELSE S1
            IN Apply(S2, f, i + 1, t, [acc EXCEPT !.acts = Append(@, <<i - 1, a>>)])
       ELSE IF a.kind \in {"SendPadding", "BlockOutgoing"}
       THEN Apply([S EXCEPT !.act[i] = [on |-> TRUE, kind |-> a.kind, due |-> t + a.timeout, bypass |-> a.bypass,
                                        replace |-> a.replace, duration |-> a.duration, m |-> i - 1]],
                  f, i + 1, t, [acc EXCEPT !.acts = Append(@, <<i - 1, a>>)])
       ELSE \* UpdateTimer
            LET cur == S.tim[i]
                sets == IF "F8" \in Variant
                        THEN a.replace \/ (IF cur.on THEN cur.due ELSE t) < t + a.duration
                        ELSE a.replace \/ ~cur.on \/ cur.due < t + a.duration
            IN Apply(IF sets THEN [S EXCEPT !.tim[i] = [on |-> TRUE, due |-> t + a.duration]] ELSE S,
                     f, i + 1, t,
                     [acc EXCEPT !.acts = Append(@, <<i - 1, a>>),
                                 !.begins = IF sets THEN Append(@, i - 1) ELSE @])

\* main loop body for an event e picked on side s at time t
Process(s, e, t, Sd0) ==
  \E f \in Returned(s) :
    LET other == Other(s)
        \* sim_network_stack
        blockedHead ==
          LET cands == {x \in Sd0[s].q : x.e = "TunnelSent" /\ (~x.bp \/ ~Sd0[s].byp)}
          IN IF cands = {} THEN {} ELSE {x \in cands : \A y \in cands : x.t <= y.t}
        net(Sd, head) ==
          CASE e.e = "NormalSent" ->
                 [Sd EXCEPT ![s].q = @ \cup {Ev(nid, "TunnelSent", -1, t, FALSE, FALSE, FALSE)}]
            [] e.e = "PaddingSent" ->
                 IF e.rp /\ (\E x \in head : ~x.p)
                 THEN LET h == CHOOSE x \in head : ~x.p IN
                      IF ~e.bp THEN Sd
                      ELSE [Sd EXCEPT ![s].q = (@ \ {h}) \cup {[h EXCEPT !.bp = TRUE, !.rp = FALSE]}]
                 ELSE [Sd EXCEPT ![s].q = @ \cup {Ev(nid, "TunnelSent", -1, t, TRUE, e.bp, e.rp)}]
            [] e.e = "TunnelSent" ->
                 [Sd EXCEPT ![other].q = @ \cup {Ev(nid, "TunnelRecv", -1,
                                                    IF t + Delay < now THEN now ELSE t + Delay, e.p, FALSE, FALSE)}]
            [] e.e = "TunnelRecv" ->
                 [Sd EXCEPT ![s].q = @ \cup {Ev(nid, IF e.p THEN "PaddingRecv" ELSE "NormalRecv", -1, t, e.p, FALSE, FALSE)}]
            [] OTHER -> Sd
        Sd1 == net(Sd0, blockedHead)
        \* trigger_update
        r   == Apply(Sd1[s], f, 1, t, [acts |-> <<>>, begins |-> <<>>])
        S2  == [r.S EXCEPT !.q = @ \cup {Ev(nid + 10 + j, "TimerBegin", r.acc.begins[j], t, FALSE, FALSE, FALSE) :
                                           j \in 1..Len(r.acc.begins)}]
        Sd2 == [Sd1 EXCEPT ![s] = S2]
        used == Len(r.acc.acts)
        lines == <<EvLine(IsC(s), e.e, e.m, t, e.p, e.bp, e.rp)>>
                 \o [j \in 1..used |-> ActLine(IsC(s), t, r.acc.acts[j][2], r.acc.acts[j][1])]
        \* stop test (no_normal_packets)
        quiet(S) == S.base = <<>> /\ \A x \in S.q : x.e # "TunnelSent" /\ x.e # "TunnelRecv" /\ ~x.p
        stop == ~Cont /\ quiet(Sd2[1]) /\ quiet(Sd2[2])
        lines2 == IF stop THEN Append(lines, [k |-> "exit", reason |-> "all_normal_processed", it |-> nev + 1, len |-> nev + 1])
                  ELSE lines
    IN /\ sd' = Sd2
       /\ left' = left - used
       /\ done' = stop
       /\ o' = Fold(o, lines2)

\* blocking expires: BlockingEnd is processed at once
ExpireBlocking ==
  /\ ~done /\ ~Nothing /\ nev < MaxEvents
  /\ BT <= ST /\ BT <= IT /\ BT <= QT
  /\ \E s \in BlkCands :
       /\ sd[s].blk.until = BT
       /\ (s = 1 => ~(2 \in BlkCands /\ sd[2].blk.until = BT))     \* ties: the server (c < s test)
       /\ LET Sd0 == [sd EXCEPT ![s].blk = [on |-> FALSE, until |-> 0]]
              t == IF BT > now THEN BT ELSE now
          IN /\ Process(s, Ev(0, "BlockingEnd", -1, t, FALSE, FALSE, FALSE), t, Sd0)
             /\ now' = t
  /\ nev' = nev + 1 /\ nid' = nid + 20

\* a queued event or the head of a base trace is processed
PopQueue ==
  /\ ~done /\ ~Nothing /\ nev < MaxEvents
  /\ ~(BT <= ST /\ BT <= IT /\ BT <= QT) /\ QT <= ST /\ QT <= IT
  /\ \E s \in Sides :
       \/ \E e \in sd[s].q :
            /\ (IF EffTime(s, e) < now THEN now ELSE EffTime(s, e)) = QT
            /\ LET Sd0 == [sd EXCEPT ![s].q = @ \ {e}]
               IN Process(s, e, QT, Sd0)
       \/ /\ sd[s].base # <<>> /\ (IF sd[s].base[1] < now THEN now ELSE sd[s].base[1]) = QT
          /\ LET Sd0 == [sd EXCEPT ![s].base = Tail(@)]
             IN Process(s, Ev(0, "NormalSent", -1, QT, FALSE, FALSE, FALSE), QT, Sd0)
  /\ now' = QT
  /\ nev' = nev + 1 /\ nid' = nid + 20

\* nothing left to do
Finish ==
  /\ ~done /\ (Nothing \/ nev >= MaxEvents)
  /\ done' = TRUE
  /\ o' = Fold(o, <<[k |-> "exit", reason |-> "end", it |-> nev, len |-> nev]>>)
  /\ UNCHANGED <<now, sd, left, nev, nid>>

Next == FireTimer \/ FireAction \/ ExpireBlocking \/ PopQueue \/ Finish
Spec == Init /\ [][Next]_vars

---------------------------------------------------------------------------
\* properties: no clause of the property fails (zero-duration blocking is the
\* known finding F6 and is excluded by its signature)
KnownF6 == {<<"BlockingEndMissed", "zero-duration">>, <<"BlockingEndBeforeBegin", "zero-duration">>}
Holds(p) == \A v \in o.viol : ClauseProperty(v[1]) = p => v \in KnownF6
Inv_C15 == Holds("C15")
Inv_C16 == Holds("C16")
Inv_C17 == Holds("C17")
Inv_C18 == Holds("C18")
Inv_C19 == Holds("C19")
Inv_Log == Holds("LOG")
\* C14: with no machines, the processed events reproduce the trace
Inv_C14 == (done /\ NC = 0 /\ NS = 0 /\ nev < MaxEvents) => Reproduces(o.cf, o.evs)
\* simulated time never moves backwards (C19)
TimeMonotone == [][now' >= now]_vars
=============================================================================
