----------------------------- MODULE Simulator -----------------------------
(***************************************************************************)
(* Model checking of the simulator: the mechanism SimMech composed with the *)
(* observer SimObs. The two frameworks are an ORACLE: after every processed *)
(* event each machine of that side may return one action from               *)
(* ActionAlphabet, at most Budget actions in total. Every step's lines      *)
(* (fired / ev / act / exit) are folded through SimObs; the properties      *)
(* C14-C19 are the observer's clauses. All time-sorted traces of            *)
(* 1..MaxPackets packets with times in {0, 1, 3} are explored.              *)
(***************************************************************************)
EXTENDS SimMech, SimObs, Json

CONSTANTS MaxPackets, Delay, NC, NS, Budget, ActionAlphabetId, MaxEvents, Cont,
          KeepHist,     \* behaviour generation: carry the oracle's answers as a history variable
          TraceSetId    \* "all": every time-sorted trace; "client": packets sent by the client only

Traces ==
  {tr \in UNION {[1..k -> [t : {0, 1, 3}, s : IF TraceSetId = "client" THEN {TRUE} ELSE BOOLEAN]] : k \in 1..MaxPackets} :
     \A i \in 1..(Len(tr) - 1) : tr[i].t <= tr[i + 1].t}

Durs == {0, 1, 3}
ActionAlphabet ==
  LET pads   == {[kind |-> "SendPadding", bypass |-> b, replace |-> r, timer |-> "-", timeout |-> t, duration |-> 0] :
                   b \in BOOLEAN, r \in BOOLEAN, t \in Durs}
      blocks == {[kind |-> "BlockOutgoing", bypass |-> b, replace |-> r, timer |-> "-", timeout |-> t, duration |-> d] :
                   b \in BOOLEAN, r \in BOOLEAN, t \in {0, 1}, d \in Durs}
      timers == {[kind |-> "UpdateTimer", bypass |-> FALSE, replace |-> r, timer |-> "-", timeout |-> 0, duration |-> d] :
                   r \in BOOLEAN, d \in Durs}
      cancels == {[kind |-> "Cancel", bypass |-> FALSE, replace |-> FALSE, timer |-> k, timeout |-> 0, duration |-> 0] :
                   k \in {"Action", "Internal", "All"}}
  IN CASE ActionAlphabetId = "block"  -> blocks \cup {p \in pads : p.timeout \in {0, 1}}
       [] ActionAlphabetId = "action" -> pads \cup {b \in blocks : b.duration = 1} \cup {c \in cancels : c.timer # "Internal"}
       [] ActionAlphabetId = "timer"  -> timers \cup cancels
       [] ActionAlphabetId = "all"    -> pads \cup blocks \cup timers \cup cancels
       \* a narrow alphabet for deep scripts: one non-bypassable block, replacing paddings
       [] ActionAlphabetId = "replace" -> {b \in blocks : ~b.bypass /\ ~b.replace /\ b.timeout = 0 /\ b.duration = 3}
                                          \cup {p \in pads : p.replace /\ p.timeout \in {0, 1}}
       [] ActionAlphabetId = "none"   -> {}

\* the bounded framework oracle
Oracle(Z, s) ==
  IF Z.left = 0 \/ NMach(Z, s) = 0 THEN {[i \in 1..NMach(Z, s) |-> NoneAct]}
  ELSE {f \in [1..NMach(Z, s) -> ActionAlphabet \cup {NoneAct}] :
          Cardinality({i \in 1..NMach(Z, s) : f[i].kind # "None"}) <= Z.left}

VARIABLES Z, o, hist
vars == <<Z, o, hist>>

RECURSIVE Fold(_, _)
Fold(ob, lines) == IF lines = <<>> THEN ob ELSE Fold(SimObsStep(ob, Head(lines)), Tail(lines))

Init ==
  \E tr \in Traces :
    LET cf == [delay |-> Delay, nc |-> NC, ns |-> NS, cont |-> Cont, maxEvents |-> MaxEvents,
              predict |-> TRUE, pps |-> 0] IN   \* aggregate delays computed (delay.rs); the bottleneck is out of reach of these bounds
    /\ Z = ZInit(tr, cf, Budget)
    /\ o = SimObsInit([nc |-> NC, ns |-> NS, delay |-> Delay, pps |-> -1, trace |-> tr,
                       max_it |-> 0, start |-> StartOf(tr, Delay)])
    /\ hist = <<>>

\* the framework hands PaddingSent, TimerBegin and TimerEnd to the machine they name only
\* (process_event): no other machine can answer them
Addressed == {"PaddingSent", "TimerBegin", "TimerEnd"}
Feasible(c) ==
  (c.kind = "queue" /\ c.ev.e \in Addressed) => \A i \in 1..Len(c.f) : i # c.ev.m + 1 => c.f[i].kind = "None"

Next ==
  \E c \in ZChoices(Z, Oracle) :
    LET r == ZStep(Z, c) IN
    /\ Feasible(c)
    /\ Z' = r.Z
    /\ o' = Fold(o, r.lines)
    /\ hist' = IF KeepHist /\ c.kind \in {"blk", "queue"}
               THEN Append(hist, [s |-> c.s, e |-> IF c.kind = "blk" THEN "BlockingEnd" ELSE c.ev.e,
                                  m |-> IF c.kind = "blk" THEN -1 ELSE c.ev.m, f |-> c.f])
               ELSE hist

Spec == Init /\ [][Next]_vars
\* behaviour generation for deep configurations: states are compared without the history, so every
\* distinct state of the model lies on a printed behaviour but not every path is printed
StateView == <<Z, o>>

---------------------------------------------------------------------------
\* properties: no clause of the property fails (with the historic variant "F6" - blocking of zero
\* length before its repair - the two clauses it breaks are excluded by their signature)
KnownF6 == IF "F6" \in Variant
           THEN {<<"BlockingEndMissed", "zero-duration">>, <<"BlockingEndBeforeBegin", "zero-duration">>}
           ELSE {}
Holds(p) == \A v \in o.viol : ClauseProperty(v[1]) = p => v \in KnownF6
Inv_C15 == Holds("C15")
Inv_C16 == Holds("C16")
Inv_C17 == Holds("C17")
Inv_C18 == Holds("C18")
Inv_C19 == Holds("C19")
Inv_Log == Holds("LOG")
\* C14: with no machines, the processed events reproduce the trace
Inv_C14 == (Z.done /\ NC = 0 /\ NS = 0 /\ Z.nev < MaxEvents) => Reproduces(o.cf, o.evs)
\* behaviour generation: one line per finished behaviour - the input trace and, per processed
\* event, what every machine of that side answered (the harness builds machines that answer so)
Emit == (KeepHist /\ Z.done) => PrintT("SCRIPT|" \o ToJson([trace |-> o.cf.trace, hist |-> hist]))
\* simulated time never moves backwards (C19)
TimeMonotone == [][Z'.now >= Z.now]_vars
=============================================================================
