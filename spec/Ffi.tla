-------------------------------- MODULE Ffi --------------------------------
(***************************************************************************)
(* C20: the C API (crates/maybenot-ffi). Lifecycle, error-code precedence,  *)
(* the translation of actions, and the bounded write into the caller's      *)
(* buffer.                                                                  *)
(*                                                                         *)
(*   Start(args)       out = NULL -> NullPointer; not UTF-8 ->              *)
(*                     MachineStringNotUtf8; some line is not a machine     *)
(*                     string -> InvalidMachineString; fraction invalid ->  *)
(*                     StartFramework; else Ok and a new live instance      *)
(*   OnEvents(i, ..)   any of this/events/actions/count NULL ->             *)
(*                     NullPointer and nothing written; else Ok,            *)
(*                     count = number of actions of the framework <= n,     *)
(*                     out[j] = Conv(ref[j]) for j < count, nothing written *)
(*                     at j >= count                                        *)
(*   NumMachines, Stop                                                      *)
(*                                                                         *)
(* Model checking explores every sequence of <= MaxOps operations over all  *)
(* argument classes. FfiTrace validates recorded calls of the real          *)
(* extern "C" functions against Expected / Conv.                            *)
(***************************************************************************)
EXTENDS FfiDefs, FiniteSets

CONSTANTS MaxOps, MaxMachines

StartArgs == [outNull : BOOLEAN, utf8 : BOOLEAN, machinesOk : BOOLEAN, fracOk : BOOLEAN,
              n : 0..MaxMachines]
EventsArgs == [thisNull : BOOLEAN, eventsNull : BOOLEAN, actionsNull : BOOLEAN, countNull : BOOLEAN]

VARIABLES live,      \* handle -> number of machines, for instances started and not stopped
          next,      \* next fresh handle
          nops,
          last       \* [op, code, count, written] of the last operation
vars == <<live, next, nops, last>>

Init == live = <<>> /\ next = 1 /\ nops = 0 /\ last = [op |-> "init", code |-> OK, count |-> 0, n |-> 0, written |-> 0]

Handles == DOMAIN live

Start(a) ==
  /\ nops < MaxOps
  /\ LET c == StartCode(a) IN
     /\ live' = IF c = OK THEN [h \in Handles \cup {next} |-> IF h = next THEN a.n ELSE live[h]] ELSE live
     /\ next' = IF c = OK THEN next + 1 ELSE next
     /\ last' = [op |-> "start", code |-> c, count |-> 0, n |-> a.n, written |-> 0]
  /\ nops' = nops + 1

\* k = number of actions the framework returns, any value 0..n
OnEvents(h, a, k) ==
  /\ nops < MaxOps /\ h \in Handles /\ k \in 0..live[h]
  /\ LET c == EventsCode([a EXCEPT !.thisNull = FALSE]) IN
     last' = [op |-> "events", code |-> c, count |-> IF c = OK THEN k ELSE 0, n |-> live[h],
              written |-> IF c = OK THEN k ELSE 0]
  /\ nops' = nops + 1 /\ UNCHANGED <<live, next>>

OnEventsNullThis(a) ==
  /\ nops < MaxOps
  /\ last' = [op |-> "events", code |-> NULLPTR, count |-> 0, n |-> 0, written |-> 0]
  /\ nops' = nops + 1 /\ UNCHANGED <<live, next>>

Stop(h) ==
  /\ nops < MaxOps /\ h \in Handles
  /\ live' = [x \in Handles \ {h} |-> live[x]]
  /\ last' = [op |-> "stop", code |-> OK, count |-> 0, n |-> 0, written |-> 0]
  /\ nops' = nops + 1 /\ UNCHANGED next

Next ==
  \/ \E a \in StartArgs : Start(a)
  \/ \E h \in Handles : \E a \in EventsArgs : \E k \in 0..MaxMachines : OnEvents(h, a, k)
  \/ \E a \in EventsArgs : OnEventsNullThis(a)
  \/ \E h \in Handles : Stop(h)
Spec == Init /\ [][Next]_vars

\* never more actions than machines, never a write beyond the count
BoundedWrite == last.count <= last.n /\ last.written = last.count
\* an error never creates an instance; every live instance came from an Ok start
NoLeak == Cardinality(Handles) <= nops /\ (\A h \in Handles : h < next)
\* errors write nothing
ErrorsWriteNothing == last.code # OK => last.written = 0
=============================================================================
