------------------------------ MODULE SimTrace ------------------------------
(***************************************************************************)
(* Trace validation for the simulator: executions recorded from the real    *)
(* simulator by sim_driver (ndjson, env TRACE; scenarios separated by       *)
(* `reset`, each starting with a `sim` line carrying trace, delay and       *)
(* settings) are folded through the observer SimObs; every clause that      *)
(* fails is reported with its scenario, property and signature.             *)
(***************************************************************************)
EXTENDS SimObs, Json, IOUtils, TLC

Rec == ndJsonDeserialize(IOEnv.TRACE)

VARIABLES l, o, sid, verdicts, stats
tvars == <<l, o, sid, verdicts, stats>>

EmptyCf == [nc |-> 0, ns |-> 0, delay |-> 0, pps |-> -1, trace |-> <<>>, max_it |-> 0, start |-> 0]
CfOf(ln) == [nc |-> ln.nc, ns |-> ln.ns, delay |-> ln.delay, pps |-> ln.pps, trace |-> ln.trace,
             max_it |-> ln.max_it, start |-> ln.start]

TInit ==
  /\ l = 1 /\ o = SimObsInit(EmptyCf) /\ sid = -1 /\ verdicts = {}
  /\ stats = [calls |-> 0, explained |-> 0]

Step ==
  /\ l <= Len(Rec)
  /\ LET ln == Rec[l]
         nxt == CASE ln.k = "reset" -> o
                  [] ln.k = "sim"   -> SimObsInit(CfOf(ln))
                  [] OTHER -> SimObsStep(o, ln)
         new == nxt.viol \ o.viol
     IN /\ o' = IF ln.k = "reset" THEN SimObsInit(EmptyCf) ELSE nxt
        /\ sid' = IF ln.k = "reset" THEN ln.id ELSE sid
        /\ verdicts' = IF ln.k \in {"reset", "sim"} THEN verdicts
                       ELSE verdicts \cup {<<sid, ClauseProperty(v[1]), v[1], v[2], l>> : v \in new}
        /\ stats' = [calls |-> stats.calls + (IF ln.k = "ev" THEN 1 ELSE 0),
                     explained |-> stats.explained + 1]
  /\ l' = l + 1

Finish ==
  /\ l = Len(Rec) + 1
  /\ PrintT("TV|DONE|" \o ToJson([lines |-> Len(Rec), stats |-> stats,
                                  verdicts |-> {[id |-> v[1], name |-> v[2], clause |-> v[3], sig |-> v[4], l |-> v[5]] : v \in verdicts}]))
  /\ l' = l + 1 /\ UNCHANGED <<o, sid, verdicts, stats>>

TNext == Step \/ Finish
TSpec == TInit /\ [][TNext]_tvars
=============================================================================
