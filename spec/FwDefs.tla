------------------------------ MODULE FwDefs ------------------------------
(***************************************************************************)
(* Shared vocabulary of the framework specifications: the event alphabet,  *)
(* the u64 encoding, durations, machine / state / action / distribution    *)
(* records and their constructors.                                          *)
(*                                                                         *)
(* Conventions (see DESIGN.md, Appendix A2):                                *)
(*  - all indices that appear in data (machine ids, state ids) are 0-based  *)
(*    as in the Rust code; TLA+ sequences are indexed with [i + 1];         *)
(*  - pseudo states: END = -1, SIGNAL = -2; sampling outcomes NONE = -3     *)
(*    (no transition) and ENDED = -4 (machine already ended);               *)
(*  - u64 values are encoded in one integer: n >= 0 is n itself, n < 0 is   *)
(*    2^64 + n (so -1 = u64::MAX). Values strictly between 2^30 and         *)
(*    2^64 - 2^30 are never produced by drivers;                            *)
(*  - durations returned in actions are pairs <<secs, micros>>;             *)
(*  - every record kind always carries all of its fields (TLC cannot        *)
(*    compare values of different kinds).                                   *)
(***************************************************************************)
EXTENDS Integers, Sequences, FiniteSets, TLC

END    == -1
SIGNAL == -2
NONE   == -3
ENDED  == -4

Events == {"NormalRecv", "PaddingRecv", "TunnelRecv", "NormalSent",
           "PaddingSent", "TunnelSent", "BlockingBegin", "BlockingEnd",
           "LimitReached", "CounterZero", "TimerBegin", "TimerEnd", "Signal"}

\* events an integrator can report; the last four carry a machine id
ExtKinds == {"NormalRecv", "PaddingRecv", "TunnelRecv", "NormalSent",
             "PaddingSent", "TunnelSent", "BlockingBegin", "BlockingEnd",
             "TimerBegin", "TimerEnd"}
WithMachine == {"PaddingSent", "BlockingBegin", "TimerBegin", "TimerEnd"}

Ext(e, m) == [e |-> e, m |-> m]

---------------------------------------------------------------------------
\* u64 arithmetic on the encoding
UMAX == -1
IsTop(n) == n < 0

USatAdd(a, b) ==
  IF ~IsTop(a) /\ ~IsTop(b) THEN a + b
  ELSE IF IsTop(a) /\ IsTop(b) THEN UMAX
  ELSE IF a + b >= 0 THEN UMAX ELSE a + b

USatSub(a, b) ==
  IF ~IsTop(a) /\ ~IsTop(b) THEN (IF a > b THEN a - b ELSE 0)
  ELSE IF IsTop(a) /\ ~IsTop(b) THEN a - b
  ELSE IF ~IsTop(a) /\ IsTop(b) THEN 0
  ELSE (IF a > b THEN a - b ELSE 0)

\* unsigned a < b
ULt(a, b) ==
  IF IsTop(a) = IsTop(b) THEN a < b ELSE ~IsTop(a)

UApply(op, old, v) ==
  CASE op = "inc" -> USatAdd(old, v)
    [] op = "dec" -> USatSub(old, v)
    [] op = "set" -> v

---------------------------------------------------------------------------
\* durations in actions: <<secs, micros>>, at most one day
DayDur == <<86400, 0>>
DurLeq(a, b) == a[1] < b[1] \/ (a[1] = b[1] /\ a[2] <= b[2])
HUGE == -1          \* a raw sample that exceeds every clamp
DurOf(v) == IF v = HUGE THEN DayDur ELSE <<v \div 1000000, v % 1000000>>
IsDur(d) == /\ d[1] >= 0 /\ d[2] >= 0 /\ d[2] < 1000000 /\ DurLeq(d, DayDur)

\* saturating clock difference (micro-seconds, plain integers)
TSatSub(a, b) == IF a > b THEN a - b ELSE 0

---------------------------------------------------------------------------
\* distributions as supports of raw samples (integers, HUGE); `any` means
\* the support is not enumerated (trace validation of real distributions)
Const(v)   == [any |-> FALSE, vals |-> {v}]
OneOf(S)   == [any |-> FALSE, vals |-> S]
AnyDist    == [any |-> TRUE,  vals |-> {}]
NoDist     == [any |-> FALSE, vals |-> {}]
InDist(d, v) == IF d.any THEN TRUE ELSE v \in d.vals
IsNoDist(d)  == ~d.any /\ d.vals = {}

\* actions of a state
NoAction == [kind |-> "None", bypass |-> FALSE, replace |-> FALSE, timer |-> "-",
             timeout |-> NoDist, duration |-> NoDist, limit |-> NoDist]
Cancel(timer) == [NoAction EXCEPT !.kind = "Cancel", !.timer = timer]
Pad(bypass, replace, timeout, limit) ==
  [NoAction EXCEPT !.kind = "SendPadding", !.bypass = bypass, !.replace = replace,
                   !.timeout = timeout, !.limit = limit]
Block(bypass, replace, timeout, duration, limit) ==
  [NoAction EXCEPT !.kind = "BlockOutgoing", !.bypass = bypass, !.replace = replace,
                   !.timeout = timeout, !.duration = duration, !.limit = limit]
UpdTimer(replace, duration, limit) ==
  [NoAction EXCEPT !.kind = "UpdateTimer", !.replace = replace,
                   !.duration = duration, !.limit = limit]
HasLimit(a) == a.kind \in {"SendPadding", "BlockOutgoing", "UpdateTimer"} /\ ~IsNoDist(a.limit)

\* what sample_limit can return for action a
LimitAdmissible(a, v) == IF HasLimit(a) THEN InDist(a.limit, v) ELSE v = UMAX

\* counters of a state
NoCtr == [on |-> FALSE, op |-> "-", copy |-> FALSE, dist |-> NoDist]
Ctr(op)          == [on |-> TRUE, op |-> op, copy |-> FALSE, dist |-> NoDist]   \* value 1
CtrDist(op, d)   == [on |-> TRUE, op |-> op, copy |-> FALSE, dist |-> d]
CtrCopy(op)      == [on |-> TRUE, op |-> op, copy |-> TRUE,  dist |-> NoDist]

\* a transition vector is a sequence of <<target, weight>>; weights are in
\* units of 1/W of the uniform draw
W == 16
T(to, w) == <<to, w>>
VecSum(v) == LET RECURSIVE S(_) S(i) == IF i = 0 THEN 0 ELSE v[i][2] + S(i - 1) IN S(Len(v))
\* outcomes a draw can produce: every target with positive weight, and NONE
\* when the weights do not cover the whole draw space
Outcomes(v) == {v[i][1] : i \in 1..Len(v)} \cup (IF VecSum(v) < W THEN {NONE} ELSE {})

\* a state; `trans` is a record/function from (some) event names to vectors
St(action, ca, cb, trans) == [action |-> action, ca |-> ca, cb |-> cb, trans |-> trans]
Vec(st, ev) == IF ev \in DOMAIN st.trans THEN st.trans[ev] ELSE <<>>

\* a machine; fractions are <<num, den>>, <<0, 1>> = not set
Unset == <<0, 1>>
Mach(allowedPad, padFrac, allowedBlock, blockFrac, states) ==
  [allowedPad |-> allowedPad, padFrac |-> padFrac,
   allowedBlock |-> allowedBlock, blockFrac |-> blockFrac, states |-> states]
FracSet(f) == f[1] > 0

\* fl(a / b) >= num/den for naturals a, b (b = 0: 0/0 is NaN, a/0 is +inf)
FracGE(a, b, f) == IF b = 0 THEN a > 0 ELSE a * f[2] >= f[1] * b

---------------------------------------------------------------------------
\* trigger actions as returned to the integrator
NoAct == [kind |-> "None", m |-> -1, bypass |-> FALSE, replace |-> FALSE,
          timer |-> "-", timeout |-> <<0, 0>>, duration |-> <<0, 0>>]
MkAct(a, m, timeout, duration) ==
  CASE a.kind = "Cancel" ->
         [NoAct EXCEPT !.kind = "Cancel", !.m = m, !.timer = a.timer]
    [] a.kind = "SendPadding" ->
         [NoAct EXCEPT !.kind = "SendPadding", !.m = m, !.bypass = a.bypass,
                       !.replace = a.replace, !.timeout = timeout]
    [] a.kind = "BlockOutgoing" ->
         [NoAct EXCEPT !.kind = "BlockOutgoing", !.m = m, !.bypass = a.bypass,
                       !.replace = a.replace, !.timeout = timeout, !.duration = duration]
    [] a.kind = "UpdateTimer" ->
         [NoAct EXCEPT !.kind = "UpdateTimer", !.m = m, !.replace = a.replace,
                       !.duration = duration]
    [] OTHER -> NoAct

SeqRange(s) == {s[i] : i \in 1..Len(s)}
=============================================================================
