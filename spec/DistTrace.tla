------------------------------ MODULE DistTrace ------------------------------
(***************************************************************************)
(* C13, implementation side. Two kinds of records from dist_cases:          *)
(*  clamp   one class pair (x = raw + start, max) realised on the real code *)
(*          (Dist::sample, and through a framework: action timeout, state   *)
(*          limit, counter value): the classes of the results must be those *)
(*          DistClamp prescribes;                                           *)
(*  sample  one validated distribution (11 families, parameter corners) x   *)
(*          one random stream (short prefix of extreme words, then a fair   *)
(*          stream): the call returned without panic, consumed a bounded    *)
(*          number of words, and the value is not NaN, >= 0 and <= max when *)
(*          max > 0. Termination of rand_distr's samplers is observed, not  *)
(*          modelled (DESIGN.md section 8).                                 *)
(***************************************************************************)
EXTENDS DistClamp, Json, IOUtils, TLC

Rec == ndJsonDeserialize(IOEnv.TRACE)

VARIABLES l, sid, verdicts, stats
tvars == <<x, mx, l, sid, verdicts, stats>>

MaxWords == 4096

ClampOK(r) ==
  /\ r.sample = Norm(Sample(r.x, r.mx)) \/ r.sample = Sample(r.x, r.mx)
  /\ r.timeout = Timeout(r.x, r.mx)
  /\ r.limit = Limit(r.x, r.mx)
  /\ r.counter = CounterValue(r.x, r.mx)
SampleOK(r) ==
  /\ r.returned /\ ~r.panic /\ ~r.hang
  /\ r.words <= MaxWords
  /\ r.cls \in {"ok", "+inf"}            \* not NaN, not negative, not above a set maximum
  /\ (r.cls = "+inf") => ~r.maxset        \* +inf only when no maximum is set
Good(r) == CASE r.k = "clamp" -> ClampOK(r) [] r.k = "sample" -> SampleOK(r) [] OTHER -> TRUE

TInit == x = "+0" /\ mx = "+0" /\ l = 1 /\ sid = -1 /\ verdicts = {} /\ stats = [calls |-> 0, explained |-> 0]
Step ==
  /\ l <= Len(Rec)
  /\ LET r == Rec[l] IN
     /\ sid' = IF r.k = "reset" THEN r.id ELSE sid
     /\ x' = IF r.k = "clamp" THEN r.x ELSE x
     /\ mx' = IF r.k = "clamp" THEN r.mx ELSE mx
     /\ verdicts' = IF Good(r) THEN verdicts ELSE verdicts \cup {<<sid, "C13", r.sig>>}
     /\ (~Good(r)) => PrintT("TV|BAD|" \o ToJson(r))
     /\ stats' = [calls |-> stats.calls + (IF r.k = "sample" THEN 1 ELSE 0), explained |-> stats.explained + 1]
  /\ l' = l + 1
Finish ==
  /\ l = Len(Rec) + 1
  /\ PrintT("TV|DONE|" \o ToJson([lines |-> Len(Rec), stats |-> stats,
                                  verdicts |-> {[id |-> v[1], name |-> v[2], sig |-> v[3]] : v \in verdicts}]))
  /\ l' = l + 1 /\ UNCHANGED <<x, mx, sid, verdicts, stats>>
TNext == Step \/ Finish
TSpec == TInit /\ [][TNext]_tvars
=============================================================================
