----------------------------- MODULE Validation -----------------------------
(***************************************************************************)
(* C12: the judgement "this machine is well-formed", written from the       *)
(* property text and the documented parameter domains - not from the code - *)
(* over an abstract domain of machines assembled with adversarial numbers.  *)
(* Numbers are value classes (strings); the harness concretises each class  *)
(* with several bit patterns.                                               *)
(*                                                                         *)
(* A case: [padFrac, blockFrac, fwPad, fwBlk, nstates, vec, dist, dpos]     *)
(*   vec   the transition vector of one event in state 0: <<[to, p]>>       *)
(*   dist  [fam, ps] a distribution placed at position dpos ("none" = no    *)
(*         distribution anywhere but a valid constant timeout)              *)
(* TLC enumerates the whole domain (Cases) and emits each case; the harness *)
(* feeds the concretised machines to Machine::new, Machine::validate,       *)
(* serialize -> from_str and Framework::new; ValidationTrace checks         *)
(*     accepted => WellFormed, the paths agree, accepted machines run.      *)
(***************************************************************************)
EXTENDS Integers, Sequences, FiniteSets, TLC, Json

CONSTANT Slice      \* which part of the domain to enumerate ("frac", "vec1", "vec2", "dist-quick", "dist")

---------------------------------------------------------------------------
\* value classes, ordered: rank is the position in the real line (NaN has none)
Vals == <<"-inf", "-max", "neg", "-0", "+0", "sub", "tiny", "minp", "half", "1-ulp", "one", "1+ulp", "two",
          "big", "bigger", "e42", "e43", "max", "+inf">>
Rank(c) == CHOOSE i \in 1..Len(Vals) : Vals[i] = c
AllVals == {Vals[i] : i \in 1..Len(Vals)} \cup {"NaN"}
IsNaN(c) == c = "NaN"
Fin(c)   == ~IsNaN(c) /\ c \notin {"-inf", "+inf"}
\* -0 and +0 are the same real number
RealRank(c) == IF c = "-0" THEN Rank("+0") ELSE Rank(c)
Leq(a, b) == ~IsNaN(a) /\ ~IsNaN(b) /\ RealRank(a) <= RealRank(b)
Lt(a, b)  == ~IsNaN(a) /\ ~IsNaN(b) /\ RealRank(a) < RealRank(b)
Pos(c)    == Lt("+0", c)
InUnit(c) == Leq("+0", c) /\ Leq(c, "one")           \* a real number in [0, 1]

\* fractions: real numbers in [0, 1]
FracVals == {"NaN", "-inf", "neg", "-0", "+0", "sub", "half", "1-ulp", "one", "1+ulp", "two", "+inf"}
FracOK(c) == InUnit(c)

\* probabilities of transitions: real numbers in (0, 1]; exact numerators in units of 2^-24
ProbVals == {"NaN", "-inf", "neg", "-0", "+0", "sub", "quarter", "half", "half+", "3quarter", "1-ulp", "one",
             "1+ulp", "two", "+inf"}
ProbNum(c) ==
  CASE c = "sub" -> 0 [] c = "quarter" -> 4194304 [] c = "half" -> 8388608 [] c = "half+" -> 8388610
    [] c = "3quarter" -> 12582912 [] c = "1-ulp" -> 16777215 [] c = "one" -> 16777216 [] OTHER -> -1
ProbOK(c) == ProbNum(c) >= 0
RECURSIVE SumNum(_, _)
SumNum(v, i) == IF i = 0 THEN 0 ELSE ProbNum(v[i].p) + SumNum(v, i - 1)

\* transition targets: state 0, state 1, first index out of range, a huge index, the two pseudo-states
TargetVals == {"s0", "s1", "oob", "huge", "END", "SIGNAL"}
TargetOK(t, n) == t \in {"END", "SIGNAL"} \/ (t = "s0" /\ n >= 1) \/ (t = "s1" /\ n >= 2)

VecOK(v, n) ==
  /\ \A i \in 1..Len(v) : TargetOK(v[i].to, n) /\ ProbOK(v[i].p)
  /\ \A i, j \in 1..Len(v) : i # j => v[i].to # v[j].to
  /\ SumNum(v, Len(v)) <= 16777216

---------------------------------------------------------------------------
\* distributions: documented parameter domains (maybenot dist.rs, rand_distr 0.4.3)
TrialVals == {"t0", "t1", "t1e9", "t1e9+1", "tmax"}
ProbParamOK(p) == InUnit(p) /\ (p \in {"+0", "-0"} \/ Leq("minp", p))
DistOK(d) ==
  LET p == d.ps IN
  CASE d.fam = "Uniform"    -> Fin(p[1]) /\ Fin(p[2]) /\ Leq(p[1], p[2]) /\ ~(p[1] = "-max" /\ p[2] = "max")
    [] d.fam = "Normal"     -> Fin(p[2])
    [] d.fam = "LogNormal"  -> Fin(p[2])
    [] d.fam = "SkewNormal" -> Fin(p[2]) /\ Pos(p[2]) /\ Fin(p[3])
    [] d.fam = "Binomial"   -> p[1] \in {"t0", "t1", "t1e9"} /\ ProbParamOK(p[2])
    [] d.fam = "Geometric"  -> ProbParamOK(p[1])
    [] d.fam = "Pareto"     -> Pos(p[1]) /\ Pos(p[2])
    [] d.fam = "Poisson"    -> Pos(p[1]) /\ Leq(p[1], "e42")
    [] d.fam = "Weibull"    -> Pos(p[1]) /\ Pos(p[2])
    [] d.fam = "Gamma"      -> Pos(p[1]) /\ Pos(p[2])
    [] d.fam = "Beta"       -> Pos(p[1]) /\ Pos(p[2])
    [] d.fam = "none"       -> TRUE

Positions == {"pad.timeout", "pad.limit", "block.timeout", "block.duration", "block.limit",
              "timer.duration", "timer.limit", "ctrA", "ctrB"}

---------------------------------------------------------------------------
\* C12: the judgement
WellFormed(c) ==
  /\ FracOK(c.padFrac) /\ FracOK(c.blockFrac)
  /\ c.nstates >= 1
  /\ VecOK(c.vec, c.nstates)
  /\ DistOK(c.dist)
FwFracsOK(c) == FracOK(c.fwPad) /\ FracOK(c.fwBlk)

---------------------------------------------------------------------------
\* the domain, by slices
NoDistC == [fam |-> "none", ps |-> <<>>]
Base == [padFrac |-> "half", blockFrac |-> "+0", fwPad |-> "+0", fwBlk |-> "one", nstates |-> 2,
         vec |-> <<[to |-> "s1", p |-> "half"]>>, dist |-> NoDistC, dpos |-> "none", ctx |-> "bare"]
\* ctx: what else the machine carries and where the judged state sits. The judgement does not depend
\* on it (validity is compositional); the harness realises it: "bare" = nothing else, "full" = every
\* other optional field present and valid (both counters, limits, flags, a vector on every other
\* event, an action in the other state) and the judged vector on a rotating event, "last" = the
\* judged state is the last one
Ctx == {"bare", "full", "last"}

FracCases ==
  {[Base EXCEPT !.padFrac = a, !.blockFrac = b, !.nstates = n] : a \in FracVals, b \in FracVals, n \in {0, 1, 2}}
  \cup {[Base EXCEPT !.fwPad = a, !.fwBlk = b] : a \in FracVals, b \in FracVals}
  \cup {[Base EXCEPT !.padFrac = a, !.fwPad = b] : a \in {"NaN", "one", "1+ulp"}, b \in FracVals}

Vec1 == {<<[to |-> t, p |-> q]>> : t \in TargetVals, q \in ProbVals}
Vec2 == {<<[to |-> t1, p |-> q1], [to |-> t2, p |-> q2]>> :
           t1 \in TargetVals, t2 \in TargetVals, q1 \in ProbVals, q2 \in ProbVals}
Vec3 == {<<[to |-> "s0", p |-> q1], [to |-> t2, p |-> q2], [to |-> "END", p |-> q3]>> :
           t2 \in {"s1", "s0", "SIGNAL"}, q1 \in {"quarter", "half", "NaN"}, q2 \in {"quarter", "half", "half+", "sub"},
           q3 \in {"quarter", "half", "1-ulp", "NaN"}}
VecCases(V) == {[Base EXCEPT !.vec = v, !.nstates = n, !.ctx = c] : v \in V, n \in {1, 2}, c \in {"bare", "full"}}
               \cup {[Base EXCEPT !.vec = <<>>]}

P2(fam, A, B) == {[fam |-> fam, ps |-> <<a, b>>] : a \in A, b \in B}
DistsFull ==
  P2("Uniform", AllVals, AllVals) \cup P2("Normal", {"NaN", "-inf", "neg", "half", "+inf"}, AllVals)
  \cup P2("LogNormal", {"NaN", "neg", "half", "+inf"}, AllVals)
  \cup {[fam |-> "SkewNormal", ps |-> <<a, b, c>>] : a \in {"NaN", "half", "+inf"}, b \in AllVals,
                                                      c \in {"NaN", "-inf", "neg", "+0", "two", "+inf"}}
  \cup P2("Binomial", TrialVals, AllVals)
  \cup {[fam |-> "Geometric", ps |-> <<a>>] : a \in AllVals}
  \cup P2("Pareto", AllVals, AllVals)
  \cup {[fam |-> "Poisson", ps |-> <<a>>] : a \in AllVals}
  \cup P2("Weibull", AllVals, AllVals) \cup P2("Gamma", AllVals, AllVals) \cup P2("Beta", AllVals, AllVals)
Corner == {"NaN", "-inf", "neg", "+0", "sub", "half", "two", "e43", "+inf"}
DistsQuick ==
  P2("Uniform", Corner \cup {"-max", "max"}, Corner \cup {"-max", "max"}) \cup P2("Normal", {"NaN", "half"}, Corner)
  \cup P2("LogNormal", {"NaN", "half"}, Corner)
  \cup {[fam |-> "SkewNormal", ps |-> <<"half", b, c>>] : b \in Corner, c \in {"NaN", "two", "+inf"}}
  \cup P2("Binomial", TrialVals, {"NaN", "neg", "+0", "tiny", "minp", "half", "one", "1+ulp", "+inf"})
  \cup {[fam |-> "Geometric", ps |-> <<a>>] : a \in AllVals}
  \cup P2("Pareto", Corner, Corner)
  \cup {[fam |-> "Poisson", ps |-> <<a>>] : a \in AllVals}
  \cup P2("Weibull", Corner, {"NaN", "half", "+0"}) \cup P2("Gamma", {"NaN", "half", "+0"}, Corner)
  \cup P2("Beta", Corner, {"NaN", "half", "neg"})
DistCases(D, Pos_) == {[Base EXCEPT !.dist = d, !.dpos = q] : d \in D, q \in Pos_}
DistCasesIn(D, Pos_, C) == {[Base EXCEPT !.dist = d, !.dpos = q, !.ctx = c] : d \in D, q \in Pos_, c \in C}

Cases ==
  CASE Slice = "frac"       -> FracCases
    [] Slice = "vec1"       -> VecCases(Vec1)
    [] Slice = "vec2-quick" -> VecCases({v \in Vec2 : v[1].p \in {"quarter", "half", "1-ulp"} /\ v[2].p \in {"quarter", "half", "half+", "NaN", "+0", "-0", "sub"}})
    [] Slice = "vec2"       -> VecCases(Vec2 \cup Vec3)
    [] Slice = "dist-quick" -> DistCases(DistsQuick, {"pad.timeout"}) \cup
                               DistCasesIn({d \in DistsQuick : ~DistOK(d) /\ d.fam \in {"Uniform", "Poisson", "Binomial"}}, Positions, Ctx)
    [] Slice = "dist"       -> DistCases(DistsFull, {"pad.timeout", "ctrB"}) \cup DistCasesIn(DistsQuick, Positions, Ctx)

VARIABLE case
Init == case \in Cases
Next == UNCHANGED case
Spec == Init /\ [][Next]_case

Emit == PrintT("CASE|" \o ToJson(case))
\* sanity of the judgement itself: the base case is well-formed; NaN is never accepted
Sane ==
  /\ WellFormed(Base)
  /\ (case.padFrac = "NaN" \/ case.blockFrac = "NaN") => ~WellFormed(case)
  /\ (\E i \in 1..Len(case.vec) : case.vec[i].p = "NaN") => ~WellFormed(case)
  /\ (case.dist.fam \in {"Pareto", "Weibull", "Gamma", "Beta", "Poisson", "Geometric"}
      /\ \E i \in 1..Len(case.dist.ps) : case.dist.ps[i] = "NaN") => ~WellFormed(case)
=============================================================================
