--------------------------- MODULE FrameworkObs ---------------------------
(***************************************************************************)
(* Observer of the framework: a state machine that sees only the hook       *)
(* lines (events fed, time stamps, internal deliveries, returned actions,   *)
(* snapshot) and carries the history variables properties C01-C09 talk      *)
(* about. Each property is stated once, here, over observer variables; the  *)
(* budget properties (C02, C03) never read the implementation's accounting. *)
(*                                                                         *)
(* The observer is a fold: o' = ObsStep(o, line). It is driven by the       *)
(* mechanism's emitted lines in model checking (FrameworkMC) and by lines   *)
(* recorded from the real code in trace validation (FrameworkObsTrace).     *)
(* `viol` collects the names of step-clauses that failed; state-clauses     *)
(* are ordinary predicates over o evaluated when o.atRet.                   *)
(***************************************************************************)
EXTENDS FwDefs

ONM(o) == Len(o.C.M)
OState(o, m, s) == o.C.M[m + 1].states[s + 1]

ObsInit(C, limits) ==
  [C |-> C,
   now |-> 0, nEv |-> 0, steps |-> 0, maxDepth |-> 0, atRet |-> FALSE, calls |-> 0,
   \* C02: reports seen
   repPad |-> [i \in 1..Len(C.M) |-> 0], repPadAll |-> 0, repNorm |-> 0,
   \* C03: blocked time recomputed from reports and time stamps
   blkActive |-> FALSE, blkStart |-> 0, blkTotal |-> 0,
   \* C04: returned actions, machines seen ended at an earlier return
   acts |-> <<>>, endedPrev |-> [i \in 1..Len(C.M) |-> FALSE],
   endedNow |-> [i \in 1..Len(C.M) |-> FALSE],
   \* the observer's own copy of per-machine state
   st |-> [i \in 1..Len(C.M) |-> 0],                         \* current state (END when ended)
   stay |-> [i \in 1..Len(C.M) |-> [s |-> 0, L |-> limits[i], done |-> 0]],
   ctr |-> [i \in 1..Len(C.M) |-> <<0, 0>>],
   zeroed |-> [i \in 1..Len(C.M) |-> <<FALSE, FALSE>>],
   slot |-> [i \in 1..Len(C.M) |-> NoAct],
   \* pending tails of regular transitions (innermost last)
   pend |-> <<>>,
   \* what the next line must be ("" = unconstrained): lim / ctr / cz / dec / lr
   expect |-> "", expM |-> -1,
   \* completion being processed: [m, e, ph ("wait","run","none"), changed]
   comp |-> [m |-> -1, e |-> "-", ph |-> "none", changed |-> FALSE],
   \* C09
   phase |-> "events",                    \* events / round1 / round2
   sigBatch |-> {}, sigRound |-> {}, sigRecv |-> [i \in 1..Len(C.M) |-> 0],
   viol |-> {}]

Flag(o, cond, name) == IF cond THEN o ELSE [o EXCEPT !.viol = @ \cup {name}]

\* the line that must come next, if any, did come; lim / ctr / dec lines and
\* internal events only ever come when the observer expects them
Internal(ln) == ln.k \in {"lim", "ctr", "dec"} \/ (ln.k = "tr" /\ ln.e \in {"CounterZero", "LimitReached"})
LineName(ln) == IF ln.k = "tr" THEN ln.e ELSE ln.k
ExpectOK(o, ln) ==
  CASE o.expect = ""    -> ~Internal(ln)
    [] o.expect = "lim" -> ln.k = "lim" /\ ln.m = o.expM
    [] o.expect = "ctr" -> ln.k = "ctr" /\ ln.m = o.expM
    [] o.expect = "cz"  -> ln.k = "tr" /\ ln.e = "CounterZero" /\ ln.m = o.expM
    [] o.expect = "dec" -> ln.k = "dec" /\ ln.m = o.expM
    [] o.expect = "lr"  -> ln.k = "tr" /\ ln.e = "LimitReached" /\ ln.m = o.expM
ExpectName(o, ln) == IF o.expect = "" THEN "Unexpected:" \o LineName(ln) ELSE "Expect:" \o o.expect

CompletionKinds == {"PaddingSent", "BlockingBegin", "TimerBegin"}

\* the top-level transition of the completion being processed has finished:
\* a decrement is due iff the machine neither changed state nor ended
FinishCompletion(o) ==
  LET m == o.comp.m
      due == ~o.comp.changed /\ o.st[m + 1] # END
  IN IF due
     THEN [o EXCEPT !.comp.ph = "none", !.expect = "dec", !.expM = m,
                    !.stay[m + 1].done = @ + 1]
     ELSE [o EXCEPT !.comp.ph = "none"]

---------------------------------------------------------------------------
OnCall(o, ln) ==
  [o EXCEPT !.now = ln.t, !.nEv = Len(ln.evs), !.steps = 0, !.atRet = FALSE,
            !.calls = @ + 1,
            !.zeroed = [i \in 1..ONM(o) |-> <<FALSE, FALSE>>],
            !.slot = [i \in 1..ONM(o) |-> NoAct],
            !.phase = "events", !.sigBatch = {}, !.sigRound = {},
            !.sigRecv = [i \in 1..ONM(o) |-> 0]]

OnEv(o, ln) ==
  LET known == ln.m >= 0 /\ ln.m < ONM(o)
      o1 == CASE ln.e = "NormalSent" -> [o EXCEPT !.repNorm = @ + 1]
              [] ln.e = "PaddingSent" ->
                   IF known THEN [o EXCEPT !.repPadAll = @ + 1, !.repPad[ln.m + 1] = @ + 1]
                   ELSE [o EXCEPT !.repPadAll = @ + 1]
              [] ln.e = "BlockingBegin" ->
                   IF o.blkActive THEN o ELSE [o EXCEPT !.blkActive = TRUE, !.blkStart = o.now]
              [] ln.e = "BlockingEnd" ->
                   IF o.blkActive
                   THEN [o EXCEPT !.blkActive = FALSE, !.blkTotal = @ + TSatSub(o.now, o.blkStart)]
                   ELSE o
              [] OTHER -> o
  IN IF ln.e \in CompletionKinds /\ known
     THEN [o1 EXCEPT !.comp = [m |-> ln.m, e |-> ln.e, ph |-> "wait", changed |-> FALSE]]
     ELSE [o1 EXCEPT !.comp.ph = "none"]

OnTr(o, ln) ==
  LET m  == ln.m
      top == Len(o.pend) = 0
      \* deliveries of Signal to a machine that is not ended
      o0 == [o EXCEPT !.steps = @ + 1]
      o1 == IF ln.e = "Signal" /\ ln.to # ENDED
            THEN [o0 EXCEPT !.sigRecv[m + 1] = @ + 1] ELSE o0
      o2 == IF ln.to = SIGNAL
            THEN (IF o.phase = "events" THEN [o1 EXCEPT !.sigBatch = @ \cup {m}]
                  ELSE [o1 EXCEPT !.sigRound = @ \cup {m}])
            ELSE o1
      \* the observer's copy of the state agrees with what the code sampled from
      o3 == Flag(o2, ln.from = o.st[m + 1] /\ (ln.to = ENDED <=> o.st[m + 1] = END), "StateTracks")
      \* completion bookkeeping
      starts == o.comp.ph = "wait" /\ top /\ m = o.comp.m /\ ln.e = o.comp.e
      o4 == IF starts THEN [o3 EXCEPT !.comp.ph = "run"] ELSE o3
      moves == (ln.to >= 0 /\ ln.to # ln.from) \/ ln.to = END
      o5 == IF o4.comp.ph = "run" /\ m = o4.comp.m /\ moves
            THEN [o4 EXCEPT !.comp.changed = TRUE] ELSE o4
      o6 == [o5 EXCEPT !.expect = "", !.expM = -1]
  IN CASE ln.to >= 0 ->
            LET o7 == [o6 EXCEPT !.st[m + 1] = ln.to,
                                 !.pend = Append(@, [m |-> m, s |-> ln.to, via |-> FALSE,
                                                     slot0 |-> o.slot[m + 1]]),
                                 !.maxDepth = IF Len(o.pend) + 1 > @ THEN Len(o.pend) + 1 ELSE @]
            IN IF ln.to # ln.from
               THEN [o7 EXCEPT !.expect = "lim", !.expM = m]
               ELSE [o7 EXCEPT !.expect = "ctr", !.expM = m]
       [] ln.to = END ->
            LET o7 == [o6 EXCEPT !.st[m + 1] = END]
            IN IF o7.comp.ph = "run" /\ top /\ m = o7.comp.m THEN FinishCompletion(o7) ELSE o7
       [] OTHER ->
            IF o6.comp.ph = "run" /\ top /\ m = o6.comp.m THEN FinishCompletion(o6) ELSE o6

OnLim(o, ln) ==
  LET m  == ln.m
      a  == OState(o, m, ln.s).action
      o1 == Flag(o, ln.s = o.st[m + 1] /\ LimitAdmissible(a, ln.v), "LimitValue")
  IN [o1 EXCEPT !.stay[m + 1] = [s |-> ln.s, L |-> ln.v, done |-> 0],
                !.expect = "ctr", !.expM = m]

\* C08: one counter update, checked against the observer's own registers
CtrOK(c, r, old, other) ==
  IF ~c.on THEN ~r.on
  ELSE /\ r.on /\ r.op = c.op /\ r.copy = c.copy
       /\ r.old = old
       /\ r.val = (IF c.copy THEN other ELSE IF IsNoDist(c.dist) THEN 1 ELSE r.val)
       /\ (~c.copy /\ ~IsNoDist(c.dist)) => InDist(c.dist, r.val)
       /\ r.new = UApply(c.op, old, r.val)

OnCtr(o, ln) ==
  LET m   == ln.m
      st  == OState(o, m, o.st[m + 1])
      oa  == o.ctr[m + 1][1]
      ob  == o.ctr[m + 1][2]
      na  == IF st.ca.on THEN ln.a.new ELSE oa
      nb  == IF st.cb.on THEN ln.b.new ELSE ob
      zA  == st.ca.on /\ oa # 0 /\ na = 0 /\ ~o.zeroed[m + 1][1]
      zB  == st.cb.on /\ ob # 0 /\ nb = 0 /\ ~o.zeroed[m + 1][2]
      z   == zA \/ zB
      o1  == Flag(o, CtrOK(st.ca, ln.a, oa, ob) /\ CtrOK(st.cb, ln.b, ob, oa), "CounterUpdate")
      o2  == Flag(o1, ln.z = z, "CounterZeroExact")
      n   == Len(o.pend)
      o3  == [o2 EXCEPT !.ctr[m + 1] = <<na, nb>>,
                        !.zeroed[m + 1] = <<@[1] \/ zA, @[2] \/ zB>>,
                        !.expect = IF z THEN "cz" ELSE "", !.expM = IF z THEN m ELSE -1]
  IN IF n = 0 THEN Flag(o3, FALSE, "Nesting") ELSE [o3 EXCEPT !.pend[n].via = z]

\* tail of a regular transition: the scheduling decision
OnAsOK(o, ln) ==
  LET n   == Len(o.pend)
      p   == o.pend[n]
      m   == ln.m
      a   == OState(o, m, ln.s).action
      before == o.slot[m + 1]
      scheduled == (ln.allow /\ ln.below) \/ ln.slot # before
      sameKind == ln.slot.kind = a.kind /\ ln.slot.m = m /\ ln.slot.bypass = a.bypass
                  /\ ln.slot.replace = a.replace /\ ln.slot.timer = a.timer
      o1  == Flag(o, p.m = m /\ p.s = ln.s, "Nesting")
      \* a slot only changes into an action of the entered state, and only
      \* when the framework says it was allowed and below its limits
      o2  == Flag(o1, scheduled => (sameKind /\ ln.allow /\ ln.below), "ScheduleSource")
      \* C08: an action scheduled by the CounterZero transition takes precedence
      o3  == Flag(o2, (p.via /\ before # p.slot0) => ln.slot = before, "CounterZeroPrecedence")
      \* C07: no limited action from a stay whose limit is used up (or zero)
      stay == o.stay[m + 1]
      o4  == Flag(o3, (scheduled /\ HasLimit(a) /\ stay.s = ln.s) => ULt(stay.done, stay.L),
                  "NoActionWhenExhausted")
      o5  == [o4 EXCEPT !.slot[m + 1] = ln.slot, !.pend = SubSeq(@, 1, n - 1),
                        !.expect = "", !.expM = -1]
  IN IF o5.comp.ph = "run" /\ n = 1 /\ m = o5.comp.m THEN FinishCompletion(o5) ELSE o5

OnAs(o, ln) == IF o.pend = <<>> THEN Flag(o, FALSE, "Nesting") ELSE OnAsOK(o, ln)

OnDec(o, ln) ==
  LET m    == ln.m
      stay == o.stay[m + 1]
      left == USatSub(stay.L, stay.done)
      a    == OState(o, m, stay.s).action
      raise == HasLimit(a) /\ left = 0
      o1   == Flag(o, ln.v = left, "LimitTracks")
      o2   == Flag(o1, ln.raise = raise, "LimitRaises")
  IN IF raise
     THEN [o2 EXCEPT !.slot[m + 1] = NoAct, !.expect = "lr", !.expM = m]
     ELSE [o2 EXCEPT !.expect = "", !.expM = -1]

OnSig(o, ln) == [o EXCEPT !.phase = IF ln.r = 1 THEN "round1" ELSE "round2"]

OnRet(o, ln) ==
  LET o0 == Flag(o, o.expect = "", "Expect:" \o o.expect)
      o1 == Flag(o0, o.pend = <<>>, "Nesting")
      o2 == Flag(o1, ln.acts = SelectSeq(o.slot, LAMBDA x : x.kind # "None"), "SlotConsistent")
      o3 == Flag(o2, \A i \in 1..ONM(o) :
                        /\ ln.snap.rt[i].s = o.st[i]
                        /\ ln.snap.rt[i].a = o.ctr[i][1] /\ ln.snap.rt[i].b = o.ctr[i][2],
                 "SnapshotTracks")
      o4 == Flag(o3, \A i \in 1..ONM(o) :
                        o.st[i] # END => ln.snap.rt[i].lim = USatSub(o.stay[i].L, o.stay[i].done),
                 "LimitTracks")
  IN [o4 EXCEPT !.atRet = TRUE, !.acts = ln.acts, !.pend = <<>>, !.expect = "", !.expM = -1,
                !.endedPrev = o.endedNow,
                !.endedNow = [i \in 1..ONM(o) |-> o.st[i] = END]]

ObsStep(o, ln) ==
  LET o1 == IF ln.k = "ret" THEN o ELSE Flag(o, ExpectOK(o, ln), ExpectName(o, ln))
      hasM == ln.k \in {"tr", "lim", "ctr", "as", "dec"}
  IN IF hasM /\ ~(ln.m >= 0 /\ ln.m < ONM(o)) THEN Flag(o1, FALSE, "Nesting") ELSE
     CASE ln.k = "call" -> OnCall(o1, ln)
       [] ln.k = "ev"   -> OnEv([o1 EXCEPT !.expect = "", !.expM = -1], ln)
       [] ln.k = "tr"   -> OnTr(o1, ln)
       [] ln.k = "lim"  -> OnLim(o1, ln)
       [] ln.k = "ctr"  -> OnCtr(o1, ln)
       [] ln.k = "as"   -> OnAs(o1, ln)
       [] ln.k = "dec"  -> OnDec(o1, ln)
       [] ln.k = "sig"  -> OnSig([o1 EXCEPT !.expect = "", !.expM = -1], ln)
       [] ln.k = "ret"  -> OnRet(o1, ln)

RECURSIVE ObsFold(_, _)
ObsFold(o, lines) == IF lines = <<>> THEN o ELSE ObsFold(ObsStep(o, Head(lines)), Tail(lines))

---------------------------------------------------------------------------
(* The properties.                                                         *)

\* C01: work per call is bounded; nesting is bounded (no unbounded recursion)
C01_Total(o) ==
  /\ o.steps <= 3 * (o.nEv + 1) * (ONM(o) + 1)
  /\ o.maxDepth <= 3

\* C02: padding budgets, at the return of single-event calls
PadBelow(p, t, f) == ~FracSet(f) \/ t = 0 \/ p * f[2] < f[1] * t
C02_PadBudget(o) ==
  (o.atRet /\ o.nEv = 1) =>
    \A i \in 1..Len(o.acts) :
      LET a == o.acts[i]  M == o.C.M[a.m + 1] IN
      (a.kind = "SendPadding" /\ a.m >= 0 /\ a.m < ONM(o)) =>
        \/ ULt(o.repPad[a.m + 1], M.allowedPad)
        \/ /\ PadBelow(o.repPad[a.m + 1], o.repPad[a.m + 1] + o.repNorm, M.padFrac)
           /\ PadBelow(o.repPadAll, o.repPadAll + o.repNorm, o.C.fwPad)

\* C03: blocking budgets, at the return of single-event calls
Blocked(o) == o.blkTotal + (IF o.blkActive THEN TSatSub(o.now, o.blkStart) ELSE 0)
Elapsed(o) == TSatSub(o.now, 0)
ShareBelow(o, f) ==
  \/ ~FracSet(f)
  \/ (Blocked(o) = 0 /\ Elapsed(o) = 0)
  \/ (Elapsed(o) > 0 /\ Blocked(o) * f[2] < f[1] * Elapsed(o))
C03_BlockBudget(o) ==
  (o.atRet /\ o.nEv = 1) =>
    \A i \in 1..Len(o.acts) :
      LET a == o.acts[i]  M == o.C.M[a.m + 1] IN
      (a.kind = "BlockOutgoing" /\ a.m >= 0 /\ a.m < ONM(o)) =>
        \/ (a.replace /\ o.blkActive)
        \/ ULt(Blocked(o), M.allowedBlock)
        \/ (ShareBelow(o, M.blockFrac) /\ ShareBelow(o, o.C.fwBlk))

\* C04: output contract
ActionOf(o, a) ==
  \E s \in 1..Len(o.C.M[a.m + 1].states) :
    LET d == o.C.M[a.m + 1].states[s].action IN
    /\ d.kind = a.kind /\ d.bypass = a.bypass /\ d.replace = a.replace /\ d.timer = a.timer
C04_OutputOK(o) ==
  o.atRet =>
    /\ \A i \in 1..Len(o.acts) :
         LET a == o.acts[i] IN
         /\ a.m >= 0 /\ a.m < ONM(o)
         /\ a.kind \in {"Cancel", "SendPadding", "BlockOutgoing", "UpdateTimer"}
         /\ ActionOf(o, a)
         /\ IsDur(a.timeout) /\ IsDur(a.duration)
         /\ \A j \in 1..Len(o.acts) : (i < j) => o.acts[i].m < o.acts[j].m
    /\ (ONM(o) = 0 => o.acts = <<>>)
C04_NoActionAfterEnd(o) ==
  o.atRet => \A i \in 1..Len(o.acts) :
               (o.acts[i].m >= 0 /\ o.acts[i].m < ONM(o)) => ~o.endedPrev[o.acts[i].m + 1]

\* C07 / C08: step clauses
C07Clauses == {"LimitValue", "LimitTracks", "LimitRaises", "NoActionWhenExhausted",
               "Expect:lim", "Expect:dec", "Expect:lr", "SlotConsistent",
               "Unexpected:lim", "Unexpected:dec", "Unexpected:LimitReached"}
C08Clauses == {"CounterUpdate", "CounterZeroExact", "CounterZeroPrecedence",
               "Expect:cz", "Unexpected:CounterZero"}
StructClauses == {"StateTracks", "Nesting", "ScheduleSource", "SnapshotTracks",
                  "Expect:ctr", "Unexpected:ctr"}
C07_Limits(o)   == o.viol \cap C07Clauses = {}
C08_Counters(o) == o.viol \cap C08Clauses = {}
WellFormedLog(o) == o.viol \cap StructClauses = {}

\* C09: signals, at return
\* live = not ended at the moment of delivery: still running at the return, or
\* ended by the Signal it received (machines only ever move on their own events)
Live(o) == {i \in 0..(ONM(o) - 1) : o.st[i + 1] # END \/ o.sigRecv[i + 1] > 0}
C09_SignalOnce(o) == o.atRet => \A i \in 1..ONM(o) : o.sigRecv[i] <= 1
C09_LoneSignaller(o) ==
  (o.atRet /\ Cardinality(o.sigBatch) = 1) =>
    LET s == CHOOSE x \in o.sigBatch : TRUE IN
    /\ \A i \in Live(o) \ {s} : o.sigRecv[i + 1] = 1
    /\ o.sigRecv[s + 1] = (IF (o.sigRound \ {s}) # {} /\ s \in Live(o) THEN 1 ELSE 0)
C09_ManySignallers(o) ==
  (o.atRet /\ Cardinality(o.sigBatch) >= 2) => \A i \in Live(o) : o.sigRecv[i + 1] = 1
=============================================================================
