------------------------------ MODULE CodecTrace ------------------------------
(***************************************************************************)
(* C11, implementation side: records of codec_cases judged by TLC.          *)
(*   rt       a generated valid machine whose encoding fits the limit:      *)
(*            parsing its serialized string succeeds, re-serializes to the  *)
(*            identical string (hence the same name), validates, and drives *)
(*            a framework to the same actions on a fixed history            *)
(*   hostile  any other string, either parser: no panic; an error, or a     *)
(*            machine that validates; for the current format the peak heap  *)
(*            growth is at most budget + 2 * len (Codec!MemoryBounded with  *)
(*            the concrete constants: budget = (2 A + 3) MAX where A is the  *)
(*            largest ratio of in-memory size to encoded size of a state,   *)
(*            computed by the harness from size_of::<State>() and the        *)
(*            cheapest state encoding; it is a constant of the build, at    *)
(*            most BudgetCap, and the bombs inflate to several times it);   *)
(*            a fixed valid string parsed right afterwards on the same      *)
(*            thread (both parsers) still round-trips: the outcome of a     *)
(*            parse depends on its input alone (after_ok)                   *)
(***************************************************************************)
EXTENDS Integers, Sequences, Json, IOUtils, TLC

Rec == ndJsonDeserialize(IOEnv.TRACE)
BudgetCap == 134217728      \* 128 MiB: the budget the harness derives may not exceed this

VARIABLES l, sid, verdicts, stats
tvars == <<l, sid, verdicts, stats>>

Good(r) ==
  CASE r.k = "rt" -> /\ ~r.panic /\ r.ok /\ r.same_string /\ r.same_name /\ r.revalidates /\ r.same_actions
                     /\ r.budget <= BudgetCap /\ r.peak <= r.budget + 2 * r.len
    [] r.k = "hostile" -> /\ ~r.panic
                          /\ r.after_ok      \* Codec: each parse starts from Init - nothing is carried from one input to the next
                          /\ (r.result = "err" \/ (r.result = "ok" /\ r.revalidates))
                          /\ (r.parser = "v2" => (r.budget <= BudgetCap /\ r.peak <= r.budget + 2 * r.len))
    [] OTHER -> TRUE

TInit == l = 1 /\ sid = -1 /\ verdicts = {} /\ stats = [calls |-> 0, explained |-> 0]
Step ==
  /\ l <= Len(Rec)
  /\ LET r == Rec[l] IN
     /\ sid' = IF r.k = "reset" THEN r.id ELSE sid
     /\ verdicts' = IF Good(r) THEN verdicts ELSE verdicts \cup {<<sid, "C11">>}
     /\ (~Good(r)) => PrintT("TV|BAD|" \o ToJson(r))
     /\ stats' = [calls |-> stats.calls + (IF r.k = "rt" THEN 1 ELSE 0), explained |-> stats.explained + 1]
  /\ l' = l + 1
Finish ==
  /\ l = Len(Rec) + 1
  /\ PrintT("TV|DONE|" \o ToJson([lines |-> Len(Rec), stats |-> stats,
                                  verdicts |-> {[id |-> v[1], name |-> v[2]] : v \in verdicts}]))
  /\ l' = l + 1 /\ UNCHANGED <<sid, verdicts, stats>>
TNext == Step \/ Finish
TSpec == TInit /\ [][TNext]_tvars
=============================================================================
