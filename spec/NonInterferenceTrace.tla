------------------------ MODULE NonInterferenceTrace ------------------------
(***************************************************************************)
(* C10, implementation side: the harness (fw_pair) runs a deterministic     *)
(* machine X alone and next to neighbours on the real framework and records *)
(* per call the actions returned for X in both runs (index erased). The     *)
(* property NonInterference!NonInterference is evaluated on every recorded  *)
(* call: the two action lists must be equal.                                *)
(***************************************************************************)
EXTENDS Integers, Sequences, Json, IOUtils, TLC

Rec == ndJsonDeserialize(IOEnv.TRACE)

VARIABLES l, sid, verdicts, ncalls
vars == <<l, sid, verdicts, ncalls>>

TInit == l = 1 /\ sid = -1 /\ verdicts = {} /\ ncalls = 0

Step ==
  /\ l <= Len(Rec)
  /\ LET ln == Rec[l] IN
     /\ sid' = IF ln.k = "reset" THEN ln.id ELSE sid
     /\ verdicts' = CASE ln.k = "pcall" /\ ln.a # ln.b -> verdicts \cup {<<sid, "C10">>}
                      [] ln.k = "panic" -> verdicts \cup {<<sid, "PANIC">>}
                      [] OTHER -> verdicts
     /\ ncalls' = IF ln.k = "pcall" THEN ncalls + 1 ELSE ncalls
  /\ l' = l + 1

Finish ==
  /\ l = Len(Rec) + 1
  /\ PrintT("TV|DONE|" \o ToJson([lines |-> Len(Rec),
                                  stats |-> [calls |-> ncalls, explained |-> 0],
                                  verdicts |-> {[id |-> v[1], name |-> v[2]] : v \in verdicts}]))
  /\ l' = l + 1 /\ UNCHANGED <<sid, verdicts, ncalls>>

TNext == Step \/ Finish
TSpec == TInit /\ [][TNext]_vars
=============================================================================
