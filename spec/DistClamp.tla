----------------------------- MODULE DistClamp -----------------------------
(***************************************************************************)
(* C13: what the framework does with whatever a distribution's sampler      *)
(* returns (crates/maybenot/src/dist.rs Dist::sample, action.rs             *)
(* sample_timeout / sample_duration / sample_limit, counter.rs              *)
(* sample_value), over an abstract extended-real domain.                    *)
(*                                                                         *)
(*   Sample(x, max)  x = raw sample + start (any f64, NaN and infinities     *)
(*                   included, since neither is restricted by validation):  *)
(*                   r = fmax(0, x); if max > 0 then fmin(r, max) else r    *)
(*   Timeout / Duration  = round(fmin(Sample, Day)) as u64                   *)
(*   Limit               = round(Sample) as u64  (saturating cast)           *)
(*   CounterValue        = Sample as u64         (truncating, saturating)    *)
(*                                                                         *)
(* Classes are totally ordered (NaN aside), so fmax / fmin are exact on     *)
(* classes. TLC checks for EVERY (x, max): the sample is not NaN, is >= 0,   *)
(* is <= max when max > 0; timeouts and durations are <= 24 h; limits and   *)
(* counter values are u64. DistTrace validates the real functions against   *)
(* these operators on concretisations of every class pair.                  *)
(***************************************************************************)
EXTENDS Integers, Sequences

\* ordered classes of f64 values (each stands for the listed representative)
\* "sub" is the smallest subnormal (5e-324), "subhi" the largest, "minnorm" the smallest normal f64:
\* positive numbers, so a maximum of that size is a set maximum
Order == <<"-inf", "neg", "-0", "+0", "sub", "subhi", "minnorm", "tiny", "mid", "day", "overday", "huge", "+inf">>
Classes == {Order[i] : i \in 1..Len(Order)} \cup {"NaN"}
Rk(c) == CHOOSE i \in 1..Len(Order) : Order[i] = c
IsNaN(c) == c = "NaN"
\* IEEE comparison a < b (false when either is NaN; -0 = +0)
Norm(c) == IF c = "-0" THEN "+0" ELSE c
Lt(a, b) == ~IsNaN(a) /\ ~IsNaN(b) /\ Rk(Norm(a)) < Rk(Norm(b))
Gt(a, b) == Lt(b, a)

\* Rust's f64::max / f64::min: the other operand when one is NaN
FMax(a, b) == IF IsNaN(a) THEN b ELSE IF IsNaN(b) THEN a ELSE IF Lt(a, b) THEN b ELSE a
FMin(a, b) == IF IsNaN(a) THEN b ELSE IF IsNaN(b) THEN a ELSE IF Lt(b, a) THEN b ELSE a

\* Dist::sample
Sample(x, max) ==
  LET r == FMax("+0", x)
  IN IF Gt(max, "+0") THEN FMin(r, max) ELSE r

\* consumers: the value class of the u64 result
\*   "zero" 0, "small" 1..999, "dayus" 86_400_000_000, "big" other values below 2^64, "umax" u64::MAX
AsU64(c, round) ==
  CASE c \in {"-inf", "neg", "-0", "+0", "NaN"} -> "zero"
    [] c \in {"sub", "subhi", "minnorm", "tiny"} -> "zero"   \* below 0.5: rounds and truncates to 0
    [] c = "mid" -> "small"
    [] c = "day" -> "dayus"
    [] c = "overday" -> "big"
    [] c \in {"huge", "+inf"} -> "umax"          \* >= 2^64 saturates
Timeout(x, max) == AsU64(FMin(Sample(x, max), "day"), TRUE)
Limit(x, max)   == AsU64(Sample(x, max), TRUE)
CounterValue(x, max) == AsU64(Sample(x, max), FALSE)

VARIABLES x, mx
Init == x \in Classes /\ mx \in Classes
Next == UNCHANGED <<x, mx>>
Spec == Init /\ [][Next]_<<x, mx>>

\* C13: "a real number that is at least 0 and, when a maximum is set, at most that maximum"
SampleInRange ==
  LET s == Sample(x, mx) IN
  /\ ~IsNaN(s)
  /\ ~Lt(s, "+0")
  /\ Gt(mx, "+0") => ~Gt(s, mx)
\* "so a machine that passed validation can never stall or crash the framework"
TimeoutBounded == Timeout(x, mx) \in {"zero", "small", "dayus"}
LimitIsU64     == Limit(x, mx) \in {"zero", "small", "dayus", "big", "umax"}
CounterIsU64   == CounterValue(x, mx) \in {"zero", "small", "dayus", "big", "umax"}
=============================================================================
