------------------------------ MODULE FfiDefs ------------------------------
(* Result codes, error precedence and the action translation of the C API   *)
(* (shared by Ffi and FfiTrace).                                            *)
EXTENDS Integers, Sequences

OK == 0  NOTUTF8 == 1  INVALID == 2  STARTFW == 3  NULLPTR == 4

\* result code of maybenot_start for an argument class
StartCode(a) ==
  IF a.outNull THEN NULLPTR
  ELSE IF ~a.utf8 THEN NOTUTF8
  ELSE IF ~a.machinesOk THEN INVALID
  ELSE IF ~a.fracOk THEN STARTFW
  ELSE OK

\* result code of maybenot_on_events
EventsCode(a) ==
  IF a.thisNull \/ a.eventsNull \/ a.actionsNull \/ a.countNull THEN NULLPTR ELSE OK

\* translation of one action: <<secs, micros>> -> (secs, nanos)
ConvDur(d) == [secs |-> d[1], nanos |-> d[2] * 1000]
Conv(a) ==
  [kind |-> a.kind, m |-> a.m, bypass |-> a.bypass, replace |-> a.replace, timer |-> a.timer,
   timeout |-> ConvDur(a.timeout), duration |-> ConvDur(a.duration)]

=============================================================================
