------------------------------ MODULE FfiTrace ------------------------------
(***************************************************************************)
(* C20, implementation side: every recorded call of the real extern "C"     *)
(* functions (ffi_driver) is checked against Ffi: result code by the        *)
(* precedence of StartCode / EventsCode, count = number of actions of the   *)
(* Rust framework on the same input <= num_machines, each action written =  *)
(* Conv of the reference action field by field, canaries around the buffer  *)
(* intact and nothing written at an index >= count, no heap bytes held      *)
(* after a failed start or after stop.                                      *)
(***************************************************************************)
EXTENDS FfiDefs, Json, IOUtils, TLC

Rec == ndJsonDeserialize(IOEnv.TRACE)

VARIABLES l, sid, verdicts, stats
tvars == <<l, sid, verdicts, stats>>

StartOK(r) ==
  /\ r.code = StartCode(r)
  /\ (r.code # OK) => r.held = 0

EventsOK(r) ==
  /\ r.code = EventsCode(r)
  /\ r.canary /\ r.untouched
  /\ IF r.code = OK
     THEN /\ r.count = Len(r.ref)                         \* as many as the Rust framework returned
          /\ r.count <= r.n                               \* never more than num_machines
          /\ Len(r.got) = r.count
          /\ \A i \in 1..Len(r.got) : r.got[i] = Conv(r.ref[i])
     ELSE r.count = -1                                    \* errors write nothing

Good(r) ==
  CASE r.k = "start"  -> StartOK(r)
    [] r.k = "events" -> EventsOK(r)
    [] r.k = "num"    -> r.got = r.n
    [] r.k = "stop"   -> r.leak = 0
    [] OTHER -> TRUE

TInit == l = 1 /\ sid = -1 /\ verdicts = {} /\ stats = [calls |-> 0, explained |-> 0]
Step ==
  /\ l <= Len(Rec)
  /\ LET r == Rec[l] IN
     /\ sid' = IF r.k = "reset" THEN r.id ELSE sid
     /\ verdicts' = IF Good(r) THEN verdicts ELSE verdicts \cup {<<sid, "C20">>}
     /\ stats' = [calls |-> stats.calls + (IF r.k = "events" THEN 1 ELSE 0),
                  explained |-> stats.explained + 1]
  /\ l' = l + 1
Finish ==
  /\ l = Len(Rec) + 1
  /\ PrintT("TV|DONE|" \o ToJson([lines |-> Len(Rec), stats |-> stats,
                                  verdicts |-> {[id |-> v[1], name |-> v[2]] : v \in verdicts}]))
  /\ l' = l + 1 /\ UNCHANGED <<sid, verdicts, stats>>
TNext == Step \/ Finish
TSpec == TInit /\ [][TNext]_tvars
=============================================================================
