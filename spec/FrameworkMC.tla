---------------------------- MODULE FrameworkMC ----------------------------
(***************************************************************************)
(* Model checking / behaviour generation for the framework:                 *)
(*   mechanism (Framework) || observer (FrameworkObs)                       *)
(* over a family of machine configurations (Families), all histories of at  *)
(* most MaxCalls calls with batches of at most MaxBatch events over         *)
(* Alphabet, clock steps TimeSteps, and every outcome of every draw.        *)
(*                                                                         *)
(* With KeepHist = TRUE the emitted lines are kept in a history variable    *)
(* and every maximal behaviour is printed once as a REPLAY line (input of   *)
(* the spec -> implementation direction).                                   *)
(***************************************************************************)
EXTENDS Framework, FrameworkObs, Families, Json

CONSTANTS FamilyId,     \* which family of configurations (Families.tla)
          MaxCalls, MaxBatch, TimeStepsId, AlphabetId,
          KeepHist

VARIABLES S, o, hist, ncalls
vars == <<S, o, hist, ncalls>>

Confs    == FamilyConfs(FamilyId)
Alphabet == AlphabetOf(AlphabetId)
TimeSteps == TimeStepsOf(TimeStepsId)

\* all sequences over A of length 0..n
SeqsUpTo(A, n) == UNION {[1..k -> A] : k \in 0..n}

InitLimitSet(mach) ==
  LET a == mach.states[1].action
  IN IF a.kind = "None" THEN {0} ELSE IF HasLimit(a) THEN a.limit.vals ELSE {UMAX}
\* all sequences of admissible initial limits
InitLimits(C) == {l \in [1..Len(C.M) -> UNION {InitLimitSet(C.M[i]) : i \in 1..Len(C.M)}] :
                    \A i \in 1..Len(C.M) : l[i] \in InitLimitSet(C.M[i])}

CallChoices(X) ==
  {[NoChoice EXCEPT !.batch = b, !.t = X.now + d] : b \in SeqsUpTo(Alphabet, MaxBatch), d \in TimeSteps}

Choices(X) ==
  CASE Kind(X) = "call"  -> CallChoices(X)
    [] Kind(X) = "tr"    -> TrChoices(X)
    [] Kind(X) = "after" -> AfterChoices(X)
    [] OTHER -> {NoChoice}

Init ==
  \E C \in Confs : \E l \in InitLimits(C) :
    /\ S = InitState(C, l)
    /\ o = ObsInit(C, l)
    /\ hist = IF KeepHist THEN <<[k |-> "new", C |-> C, limits |-> l]>> ELSE <<>>
    /\ ncalls = 0

Next ==
  /\ (Kind(S) = "call") => ncalls < MaxCalls
  /\ \E c \in Choices(S) :
       LET r == Step(S, c) IN
       /\ Admissible(S, c)
       /\ S' = r.S
       /\ o' = ObsFold(o, r.lines)
       /\ hist' = IF KeepHist THEN hist \o r.lines ELSE hist
       /\ ncalls' = IF Kind(S) = "call" THEN ncalls + 1 ELSE ncalls

Spec == Init /\ [][Next]_vars

---------------------------------------------------------------------------
\* the properties, as invariants of the composition
Inv_C01 == C01_Total(o)
Inv_C02 == C02_PadBudget(o)
Inv_C03 == C03_BlockBudget(o)
Inv_C04 == C04_OutputOK(o) /\ C04_NoActionAfterEnd(o)
Inv_C07 == C07_Limits(o)
Inv_C08 == C08_Counters(o)
Inv_C09 == C09_SignalOnce(o) /\ C09_LoneSignaller(o) /\ C09_ManySignallers(o)
Inv_Log == WellFormedLog(o)
\* the observer's copy of the internal state and the mechanism agree
Inv_ObsAgrees ==
  /\ \A i \in 1..NM(S) : o.st[i] = S.rt[i].state /\ o.ctr[i] = <<S.rt[i].ctrA, S.rt[i].ctrB>>
\* a call never gets stuck half-way (C01: every frame sequence terminates)
Inv_NoStuck == Kind(S) # "call" => Choices(S) # {}
\* stack depth of the mechanism is bounded (no unbounded recursion)
Inv_Stack == Len(S.stack) <= 2 * NM(S) + 6

\* vacuity witnesses: negate to make TLC exhibit a behaviour that reaches them
Terminal == Kind(S) = "call" /\ ncalls = MaxCalls
\* (the configuration printed is the final one: lazily chosen vectors are installed in it)
Emit == Terminal => PrintT("REPLAY|" \o ToJson(IF hist = <<>> THEN hist ELSE [hist EXCEPT ![1].C = S.C]))
=============================================================================
