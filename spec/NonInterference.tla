--------------------------- MODULE NonInterference ---------------------------
(***************************************************************************)
(* C10: two instances of the mechanism are run on the same history:         *)
(*   A  a framework with machines <<X, Y>> or <<Y, X>>                      *)
(*   B  a framework with X alone                                            *)
(* neither has framework-wide fractions; X is deterministic (probability-1  *)
(* transitions, constant distributions), never signals and has no           *)
(* transitions on Signal. Events addressed to Y are mapped to an unknown    *)
(* machine id in B. After every call the actions returned for X must be     *)
(* the same in both (modulo X's index).                                     *)
(*                                                                         *)
(* The history alphabet is symbolic: <<e, "x">> addresses X, <<e, "y">>     *)
(* addresses Y, <<e, "u">> an unknown id, <<e, "-">> is a global event.     *)
(***************************************************************************)
EXTENDS Framework, Families, Json

CONSTANTS PairsId, MaxCalls, MaxBatch, TimeStepsId, AlphabetId, KeepHist

VARIABLES A, B, xa, actsA, actsB, ncalls, hist
vars == <<A, B, xa, actsA, actsB, ncalls, hist>>

Pairs == PairFamily(PairsId)            \* set of <<X, Y>>
TimeSteps == TimeStepsOf(TimeStepsId)
UNKNOWN == 5

SymAlphabet == SymAlphabetOf(AlphabetId)

SeqsUpTo(S, n) == UNION {[1..k -> S] : k \in 0..n}

MapA(b) == [i \in 1..Len(b) |->
              Ext(b[i][1], CASE b[i][2] = "-" -> -1 [] b[i][2] = "x" -> xa
                             [] b[i][2] = "y" -> 1 - xa [] OTHER -> UNKNOWN)]
MapB(b) == [i \in 1..Len(b) |->
              Ext(b[i][1], CASE b[i][2] = "-" -> -1 [] b[i][2] = "x" -> 0 [] OTHER -> UNKNOWN)]

InitLimitSet(mach) ==
  LET a == mach.states[1].action
  IN IF a.kind = "None" THEN {0} ELSE IF HasLimit(a) THEN a.limit.vals ELSE {UMAX}

DrawChoices(Q) ==
  CASE Kind(Q) = "tr"    -> TrChoices(Q)
    [] Kind(Q) = "after" -> AfterChoices(Q)
    [] OTHER -> {NoChoice}

\* the actions for machine x of a ret line, with the machine index erased
ForX(acts, x) == [i \in 1..Len(SelectSeq(acts, LAMBDA a : a.m = x)) |->
                    [SelectSeq(acts, LAMBDA a : a.m = x)[i] EXCEPT !.m = 0]]

Init ==
  \E p \in Pairs : \E pos \in {0, 1} :
    \E lx \in InitLimitSet(p[1]) : \E ly \in InitLimitSet(p[2]) :
      /\ xa = pos
      /\ A = InitState(Conf(IF pos = 0 THEN <<p[1], p[2]>> ELSE <<p[2], p[1]>>, Unset, Unset),
                       IF pos = 0 THEN <<lx, ly>> ELSE <<ly, lx>>)
      /\ B = InitState(Conf(<<p[1]>>, Unset, Unset), <<lx>>)
      /\ actsA = <<>> /\ actsB = <<>> /\ ncalls = 0
      /\ hist = IF KeepHist THEN <<[k |-> "pair", X |-> p[1], Y |-> p[2], pos |-> pos,
                                    lx |-> lx, ly |-> ly]>> ELSE <<>>

BothIdle == Kind(A) = "call" /\ Kind(B) = "call"

CallBoth ==
  /\ BothIdle /\ ncalls < MaxCalls
  /\ \E b \in SeqsUpTo(SymAlphabet, MaxBatch) : \E d \in TimeSteps :
       /\ A' = DoCall(A, [NoChoice EXCEPT !.batch = MapA(b), !.t = A.now + d]).S
       /\ B' = DoCall(B, [NoChoice EXCEPT !.batch = MapB(b), !.t = A.now + d]).S
       /\ hist' = IF KeepHist THEN Append(hist, [k |-> "pcall", t |-> A.now + d, evs |-> b]) ELSE hist
  /\ ncalls' = ncalls + 1
  /\ UNCHANGED <<xa, actsA, actsB>>

StepA ==
  /\ Kind(A) # "call"
  /\ \E c \in DrawChoices(A) :
       LET r == Step(A, c) IN
       /\ A' = r.S
       /\ actsA' = IF Kind(A) = "ret" THEN ForX(r.lines[1].acts, xa) ELSE actsA
  /\ UNCHANGED <<B, xa, actsB, ncalls, hist>>

StepB ==
  /\ Kind(A) = "call" /\ Kind(B) # "call"
  /\ \E c \in DrawChoices(B) :
       LET r == Step(B, c) IN
       /\ B' = r.S
       /\ actsB' = IF Kind(B) = "ret" THEN ForX(r.lines[1].acts, 0) ELSE actsB
  /\ UNCHANGED <<A, xa, actsA, ncalls, hist>>

Next == CallBoth \/ StepA \/ StepB
Spec == Init /\ [][Next]_vars

\* C10
NonInterference == BothIdle => actsA = actsB
\* stronger, internal: X's runtime is the same in both instances
SameRuntime == BothIdle => A.rt[xa + 1] = B.rt[1]

Terminal == BothIdle /\ ncalls = MaxCalls
Emit == Terminal => PrintT("REPLAY|" \o ToJson(hist))
=============================================================================
