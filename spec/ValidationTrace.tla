-------------------------- MODULE ValidationTrace --------------------------
(***************************************************************************)
(* C12, implementation side: every record of validate_cases (one abstract   *)
(* case, one concretisation, the verdicts of Machine::validate,             *)
(* Machine::new, serialize -> from_str and Framework::new, and whether one  *)
(* trigger_events per event kind returned) is judged against Validation:    *)
(*   accepted by validation        => WellFormed(case)                      *)
(*   the three machine paths agree                                          *)
(*   accepted and framework fractions in [0,1] => Framework::new succeeds   *)
(*                                               and the machine runs       *)
(*   Framework::new succeeds       => the same judgement holds              *)
(***************************************************************************)
EXTENDS Validation, IOUtils

Rec == ndJsonDeserialize(IOEnv.TRACE)

VARIABLES l, sid, verdicts, stats
tvars == <<case, l, sid, verdicts, stats>>

Good(r) ==
  /\ ~r.panicked
  /\ r.validate_ok => WellFormed(r.case)
  /\ r.new_ok = r.validate_ok
  /\ r.fromstr_ok = r.validate_ok
  /\ (r.validate_ok /\ FwFracsOK(r.case)) => (r.fw_ok /\ r.ran_ok)
  /\ r.fw_ok => (WellFormed(r.case) /\ FwFracsOK(r.case))

TInit == case = Base /\ l = 1 /\ sid = -1 /\ verdicts = {} /\ stats = [calls |-> 0, explained |-> 0]
Step ==
  /\ l <= Len(Rec)
  /\ LET r == Rec[l] IN
     /\ sid' = IF r.k = "reset" THEN r.id ELSE sid
     /\ case' = IF r.k = "case" THEN r.case ELSE case
     /\ verdicts' = IF r.k = "case" /\ ~Good(r) THEN verdicts \cup {<<sid, "C12">>} ELSE verdicts
     /\ (r.k = "case" /\ ~Good(r)) => PrintT("TV|BAD|" \o ToJson(r))
     /\ stats' = [calls |-> stats.calls + (IF r.k = "case" /\ r.validate_ok THEN 1 ELSE 0),
                  explained |-> stats.explained + 1]
  /\ l' = l + 1
Finish ==
  /\ l = Len(Rec) + 1
  /\ PrintT("TV|DONE|" \o ToJson([lines |-> Len(Rec), stats |-> stats,
                                  verdicts |-> {[id |-> v[1], name |-> v[2]] : v \in verdicts}]))
  /\ l' = l + 1 /\ UNCHANGED <<case, sid, verdicts, stats>>
TNext == Step \/ Finish
TSpec == TInit /\ [][TNext]_tvars
=============================================================================
