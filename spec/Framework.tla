----------------------------- MODULE Framework -----------------------------
(***************************************************************************)
(* Mechanism specification of maybenot's Framework::trigger_events          *)
(* (crates/maybenot/src/framework.rs), written to be bound to the code:     *)
(* one step per critical section of the implementation, and every step      *)
(* emits exactly the hook lines the instrumented code records at that       *)
(* point (crates/maybenot/src/verif.rs, rendered by the harness).           *)
(*                                                                         *)
(* The mechanism is written as pure operators over a state record S so      *)
(* that it can be instantiated several times (non-interference, the two     *)
(* sides of the simulator) and driven either by TLC's nondeterminism        *)
(* (FrameworkMC) or by a recorded trace (FrameworkTrace).                   *)
(*                                                                         *)
(*   Kind(S)      which step is next (the code is sequential: exactly one)  *)
(*   Admissible   which outcomes of draws / inputs are possible             *)
(*   Step(S, c)   the successor state and the lines emitted                 *)
(*                                                                         *)
(* `Variant` names historic defects of the pinned commit that the model     *)
(* can reproduce (DESIGN.md section 7); {} is the current code.             *)
(*   "F1"  padding limits: `total == 0 -> return true`                      *)
(*   "F2"  one CounterZero guard pair for the whole framework               *)
(*   "F3"  a machine signalling twice is sent its own signal                *)
(*   "F4"  a signal raised in the second round stays pending                *)
(*   "F11" limits not re-evaluated when CounterZero transitions re-enter    *)
(*         the state with a newly sampled limit                             *)
(***************************************************************************)
EXTENDS FwDefs

CONSTANT Variant

Conf(machines, fwPad, fwBlk) == [M |-> machines, fwPad |-> fwPad, fwBlk |-> fwBlk]

NM(S)            == Len(S.C.M)
MachOf(S, m)     == S.C.M[m + 1]
StateOf(S, m, s) == MachOf(S, m).states[s + 1]
Rt(S, m)         == S.rt[m + 1]
SetRt(S, m, r)   == [S EXCEPT !.rt[m + 1] = r]
Top(S)           == S.stack[Len(S.stack)]
PopS(S)          == [S EXCEPT !.stack = SubSeq(@, 1, Len(@) - 1)]
Push(S, f)       == [S EXCEPT !.stack = Append(@, f)]

---------------------------------------------------------------------------
\* construction (Framework::new)

\* the initial state_limit of a machine: 0 when state 0 has no action
InitLimitAdmissible(mach, v) ==
  LET a == mach.states[1].action
  IN IF a.kind = "None" THEN v = 0 ELSE LimitAdmissible(a, v)

InitRt(limit) == [state |-> 0, limit |-> limit, padSent |-> 0, normSent |-> 0,
                  blockDur |-> 0, ctrA |-> 0, ctrB |-> 0]

InitState(C, limits) ==
  [C |-> C,
   rt |-> [i \in 1..Len(C.M) |-> InitRt(limits[i])],
   now |-> 0, gPad |-> 0, gNorm |-> 0, gBlk |-> 0,
   blkActive |-> FALSE, blkStart |-> 0,
   sig |-> 0,                                   \* 0 none, 1 all, 2 + i all except i
   zeroed |-> [i \in 1..Len(C.M) |-> <<FALSE, FALSE>>],
   slot |-> [i \in 1..Len(C.M) |-> NoAct],
   phase |-> "idle", batch |-> <<>>, stack |-> <<>>, ret |-> "U", excl |-> -1]

---------------------------------------------------------------------------
\* continuation frames: a pending transition(m, ev), the tail of a regular
\* transition, or a pending decrement_limit(m)
MkTr(m, ev, k) == [op |-> "tr", m |-> m, ev |-> ev, k |-> k, next |-> 0,
                   below |-> FALSE, cur |-> 0, via |-> FALSE]
MkAfter(m, next, below, cur, k, via) ==
  [op |-> "after", m |-> m, ev |-> "-", k |-> k, next |-> next,
   below |-> below, cur |-> cur, via |-> via]
MkDec(m) == [op |-> "dec", m |-> m, ev |-> "-", k |-> "drop", next |-> 0,
             below |-> FALSE, cur |-> 0, via |-> FALSE]

\* inputs and draw outcomes of one step
NoChoice == [to |-> NONE, lim |-> 0, va |-> 0, vb |-> 0,
             timeout |-> <<0, 0>>, duration |-> <<0, 0>>, batch |-> <<>>, t |-> 0, vec |-> <<>>]

\* Lazily synthesised transition tables: a vector <<T(LAZY, 0)>> stands for "not chosen yet". The
\* first time a transition() consults it, the step chooses the real vector (c.vec) from
\* EntryChoices and installs it in the configuration, so that TLC quantifies over all tables of
\* the family but only materialises the entries a bounded history can observe.
LAZY == -9
IsLazy(v) == v # <<>> /\ v[1][1] = LAZY
EntryChoices(n) ==
  {<<>>, <<T(END, 16)>>, <<T(SIGNAL, 16)>>}
  \cup {<<T(s, 16)>> : s \in 0..(n - 1)}
  \cup {<<T(s, 8)>> : s \in 0..(n - 1)}
  \cup {<<T(0, 8), T(n - 1, 8)>> : x \in {1} \cap (IF n > 1 THEN {1} ELSE {})}
\* the configuration with the vector of (machine m, state s, event ev) set to v
Install(S, m, s, ev, v) ==
  [S EXCEPT !.C.M[m + 1].states[s + 1].trans =
     [e \in DOMAIN @ |-> IF e = ev THEN v ELSE @[e]]]

---------------------------------------------------------------------------
\* hook lines
CallLine(t, batch)        == [k |-> "call", t |-> t, evs |-> batch]
EvLine(e)                 == [k |-> "ev", e |-> e.e, m |-> e.m]
TrLine(m, ev, from, to)   == [k |-> "tr", m |-> m, e |-> ev, from |-> from, to |-> to]
LimLine(m, s, v)          == [k |-> "lim", m |-> m, s |-> s, v |-> v]
CtrRec(c, val, old, new)  == [on |-> c.on, op |-> c.op, copy |-> c.copy,
                              val |-> val, old |-> old, new |-> new]
CtrLine(m, a, b, z)       == [k |-> "ctr", m |-> m, a |-> a, b |-> b, z |-> z]
AsLine(m, s, allow, below, slot, ch) ==
  [k |-> "as", m |-> m, s |-> s, allow |-> allow, below |-> below, slot |-> slot, ch |-> ch]
DecLine(m, v, raise)      == [k |-> "dec", m |-> m, v |-> v, raise |-> raise]
SigLine(r, x)             == [k |-> "sig", r |-> r, x |-> x]
RetLine(acts, snap)       == [k |-> "ret", acts |-> acts, snap |-> snap]

Snap(S) ==
  [rt |-> [i \in 1..NM(S) |->
             [s |-> S.rt[i].state, lim |-> S.rt[i].limit, pad |-> S.rt[i].padSent,
              norm |-> S.rt[i].normSent, blk |-> S.rt[i].blockDur,
              a |-> S.rt[i].ctrA, b |-> S.rt[i].ctrB]],
   gpad |-> S.gPad, gnorm |-> S.gNorm, gblk |-> S.gBlk,
   active |-> S.blkActive, pending |-> S.sig]

Actions(S) == SelectSeq(S.slot, LAMBDA a : a.kind # "None")

---------------------------------------------------------------------------
\* below_action_limits and its two helpers, branch for branch

LimitLeft(r) == r.limit # 0

BelowPad(S, m) ==
  LET r == Rt(S, m)  M == MachOf(S, m)
      mt == r.normSent + r.padSent
      gt == S.gPad + S.gNorm
  IN IF ULt(r.padSent, M.allowedPad) THEN LimitLeft(r)
     ELSE IF "F1" \in Variant THEN
            IF FracSet(M.padFrac) /\ mt = 0 THEN TRUE
            ELSE IF FracSet(M.padFrac) /\ FracGE(r.padSent, mt, M.padFrac) THEN FALSE
            ELSE IF FracSet(S.C.fwPad) /\ gt = 0 THEN TRUE
            ELSE IF FracSet(S.C.fwPad) /\ FracGE(S.gPad, gt, S.C.fwPad) THEN FALSE
            ELSE LimitLeft(r)
          ELSE
            IF FracSet(M.padFrac) /\ mt > 0 /\ FracGE(r.padSent, mt, M.padFrac) THEN FALSE
            ELSE IF FracSet(S.C.fwPad) /\ gt > 0 /\ FracGE(S.gPad, gt, S.C.fwPad) THEN FALSE
            ELSE LimitLeft(r)

BelowBlock(S, m) ==
  LET r == Rt(S, m)  M == MachOf(S, m)
      a == StateOf(S, m, r.state).action
  IN IF a.replace /\ S.blkActive THEN LimitLeft(r)
     ELSE LET ongoing == IF S.blkActive THEN TSatSub(S.now, S.blkStart) ELSE 0
              mdur == r.blockDur + ongoing
              gdur == S.gBlk + ongoing
              elapsed == TSatSub(S.now, 0)     \* machine_start = framework_start = 0
          IN IF ULt(mdur, M.allowedBlock) THEN LimitLeft(r)
             ELSE IF FracSet(M.blockFrac) /\ FracGE(mdur, elapsed, M.blockFrac) THEN FALSE
             ELSE IF FracSet(S.C.fwBlk) /\ FracGE(gdur, elapsed, S.C.fwBlk) THEN FALSE
             ELSE LimitLeft(r)

BelowLimits(S, m) ==
  LET r == Rt(S, m)
      a == StateOf(S, m, r.state).action
  IN CASE a.kind = "None"          -> FALSE
       [] a.kind = "BlockOutgoing" -> BelowBlock(S, m)
       [] a.kind = "SendPadding"   -> BelowPad(S, m)
       [] a.kind = "UpdateTimer"   -> LimitLeft(r)
       [] OTHER                    -> TRUE

---------------------------------------------------------------------------
\* which step is next
Kind(S) ==
  IF S.phase = "idle" THEN "call"
  ELSE IF S.stack # <<>> THEN Top(S).op
  ELSE IF S.phase = "events" THEN
         (IF S.batch # <<>> THEN "event" ELSE IF S.sig # 0 THEN "sig1" ELSE "ret")
  ELSE IF S.phase = "sig1" THEN
         (IF S.sig # 0 /\ S.excl >= 0 THEN "sig2" ELSE "ret")
  ELSE "ret"

\* hand the result of a finished transition(m, ..) to its caller
Complete(S, m, res, k) ==
  CASE k = "drop" -> S
    [] k = "dec"  -> IF res = "U" /\ Rt(S, m).state # END THEN Push(S, MkDec(m)) ELSE S
    [] k = "cz"   -> [S EXCEPT !.ret = res]

\* frames for transition(mi, ev) for all machines, machine 0 on top;
\* K(mi) is the caller's continuation for machine mi
AllFrames(S, ev, K(_)) == [i \in 1..NM(S) |-> MkTr(NM(S) - i, ev, K(NM(S) - i))]
Drop(mi) == "drop"

---------------------------------------------------------------------------
\* trigger_events prologue
DoCall(S, c) ==
  [S |-> [S EXCEPT !.phase = "events", !.batch = c.batch, !.now = c.t,
                   !.slot = [i \in 1..NM(S) |-> NoAct],
                   !.zeroed = [i \in 1..NM(S) |-> <<FALSE, FALSE>>]],
   lines |-> <<CallLine(c.t, c.batch)>>]

\* process_event up to the calls of transition()
DoEvent(S) ==
  LET e  == Head(S.batch)
      S0 == [S EXCEPT !.batch = Tail(@)]
      known == e.m >= 0 /\ e.m < NM(S)
      all(ev)  == [S0 EXCEPT !.stack = @ \o AllFrames(S0, ev, Drop)]
      one(ev, k) == IF known THEN Push(S0, MkTr(e.m, ev, k)) ELSE S0
      S1 ==
        CASE e.e \in {"NormalRecv", "PaddingRecv", "TunnelRecv", "TunnelSent"} -> all(e.e)
          [] e.e = "NormalSent" ->
               LET A == all("NormalSent")
               IN [A EXCEPT !.gNorm = @ + 1,
                            !.rt = [i \in 1..NM(S) |-> [A.rt[i] EXCEPT !.normSent = @ + 1]]]
          [] e.e = "PaddingSent" ->
               LET A == one("PaddingSent", "dec")
                   B == [A EXCEPT !.gPad = @ + 1]
               IN IF known THEN [B EXCEPT !.rt[e.m + 1].padSent = @ + 1] ELSE B
          [] e.e = "BlockingBegin" ->
               LET K(mi) == IF mi = e.m THEN "dec" ELSE "drop"
                   A == [S0 EXCEPT !.stack = @ \o AllFrames(S0, "BlockingBegin", K)]
               IN IF S.blkActive THEN A
                  ELSE [A EXCEPT !.blkActive = TRUE, !.blkStart = S.now]
          [] e.e = "BlockingEnd" ->
               LET A == all("BlockingEnd")
                   blocked == IF S.blkActive THEN TSatSub(S.now, S.blkStart) ELSE 0
               IN [A EXCEPT !.blkActive = FALSE, !.gBlk = @ + blocked,
                            !.rt = [i \in 1..NM(S) |-> [A.rt[i] EXCEPT !.blockDur = @ + blocked]]]
          [] e.e = "TimerBegin" -> one("TimerBegin", "dec")
          [] e.e = "TimerEnd"   -> one("TimerEnd", "drop")
  IN [S |-> S1, lines |-> <<EvLine(e)>>]

\* pending-signal update when machine m draws SIGNAL
NewSig(sig, m) ==
  IF "F3" \in Variant
  THEN (IF sig = 0 THEN 2 + m ELSE 1)
  ELSE (IF sig = 0 \/ sig = 2 + m THEN 2 + m ELSE 1)

\* the regular-target arm of transition() up to and including update_counter
DoRegular(S1, f, to, c) ==
  LET m    == f.m
      r    == Rt(S1, m)
      cur  == r.state
      nst  == StateOf(S1, m, to)
      changed == cur # to
      newlim  == IF ~changed THEN r.limit
                 ELSE IF HasLimit(nst.action) THEN c.lim ELSE UMAX
      r1   == [r EXCEPT !.state = to, !.limit = newlim]
      S2   == SetRt(S1, m, r1)
      below == BelowLimits(S2, m)
      oldA == r1.ctrA
      oldB == r1.ctrB
      valA == IF ~nst.ca.on THEN 0 ELSE IF nst.ca.copy THEN oldB
              ELSE IF IsNoDist(nst.ca.dist) THEN 1 ELSE c.va
      valB == IF ~nst.cb.on THEN 0 ELSE IF nst.cb.copy THEN oldA
              ELSE IF IsNoDist(nst.cb.dist) THEN 1 ELSE c.vb
      newA == IF nst.ca.on THEN UApply(nst.ca.op, oldA, valA) ELSE oldA
      newB == IF nst.cb.on THEN UApply(nst.cb.op, oldB, valB) ELSE oldB
      zi   == IF "F2" \in Variant THEN 1 ELSE m + 1
      zA   == nst.ca.on /\ oldA # 0 /\ newA = 0 /\ ~S2.zeroed[zi][1]
      zB   == nst.cb.on /\ oldB # 0 /\ newB = 0 /\ ~S2.zeroed[zi][2]
      any  == zA \/ zB
      S3   == [SetRt(S2, m, [r1 EXCEPT !.ctrA = newA, !.ctrB = newB])
                 EXCEPT !.zeroed[zi] = <<@[1] \/ zA, @[2] \/ zB>>, !.ret = "U"]
      S4   == Push(S3, MkAfter(m, to, below, cur, f.k, any))
      S5   == IF any THEN Push(S4, MkTr(m, "CounterZero", "cz")) ELSE S4
  IN [S |-> S5,
      lines |-> <<TrLine(m, f.ev, cur, to)>>
                \o (IF changed THEN <<LimLine(m, to, newlim)>> ELSE <<>>)
                \o <<CtrLine(m, CtrRec(nst.ca, valA, IF nst.ca.on THEN oldA ELSE 0,
                                       IF nst.ca.on THEN newA ELSE 0),
                                CtrRec(nst.cb, valB, IF nst.cb.on THEN oldB ELSE 0,
                                       IF nst.cb.on THEN newB ELSE 0), any)>>]

\* transition(): END short-circuit, the draw, END / SIGNAL / regular target
DoTrans(S, c) ==
  LET f  == Top(S)
      m  == f.m
      S1 == PopS(S)
      r  == Rt(S, m)
  IN IF r.state = END
     THEN [S |-> Complete(S1, m, "U", f.k), lines |-> <<TrLine(m, f.ev, END, ENDED)>>]
     ELSE
       LET v0 == Vec(StateOf(S, m, r.state), f.ev)
           v  == IF IsLazy(v0) THEN c.vec ELSE v0
           Sx == IF IsLazy(v0) THEN Install(PopS(S), m, r.state, f.ev, c.vec) ELSE PopS(S)
           to == IF v = <<>> THEN NONE ELSE c.to
       IN CASE to = NONE ->
                 [S |-> Complete(Sx, m, "U", f.k),
                  lines |-> <<TrLine(m, f.ev, r.state, NONE)>>]
            [] to = END ->
                 [S |-> Complete(SetRt(Sx, m, [r EXCEPT !.state = END]), m, "C", f.k),
                  lines |-> <<TrLine(m, f.ev, r.state, END)>>]
            [] to = SIGNAL ->
                 [S |-> Complete([Sx EXCEPT !.sig = NewSig(S.sig, m)], m, "U", f.k),
                  lines |-> <<TrLine(m, f.ev, r.state, SIGNAL)>>]
            [] OTHER -> DoRegular(Sx, f, to, c)

\* would the tail of the transition on top of the stack schedule an action?
AfterAllow(S) == LET f == Top(S) IN IF f.via THEN S.slot[f.m + 1].kind = "None" ELSE TRUE
\* the limits the tail of the transition goes by: those captured before the counter update, unless
\* CounterZero transitions left the entered state and came back to it (a new stay with a newly
\* sampled limit), in which case they are evaluated again ("F11": they were not)
AfterBelow(S) ==
  LET f == Top(S) IN
  IF ~("F11" \in Variant) /\ f.via /\ S.ret = "C" /\ Rt(S, f.m).state = f.next
  THEN BelowLimits(S, f.m) ELSE f.below
AfterSched(S) == AfterAllow(S) /\ AfterBelow(S)

\* tail of a regular transition(): schedule, compute StateChange
DoAfter(S, c) ==
  LET f     == Top(S)
      m     == f.m
      S1    == PopS(S)
      allow == AfterAllow(S)
      inner == f.via /\ S.ret = "C"
      a     == StateOf(S, m, f.next).action
      below == AfterBelow(S)
      slot  == IF allow /\ below THEN MkAct(a, m, c.timeout, c.duration) ELSE S.slot[m + 1]
      res   == IF f.cur = Rt(S, m).state /\ ~inner THEN "U" ELSE "C"
      S2    == [S1 EXCEPT !.slot[m + 1] = slot]
  IN [S |-> Complete(S2, m, res, f.k),
      lines |-> <<AsLine(m, f.next, allow, below, slot, res = "C")>>]

\* decrement_limit()
DoDec(S) ==
  LET f   == Top(S)
      m   == f.m
      S1  == PopS(S)
      r   == Rt(S, m)
      lim == IF r.limit # 0 THEN USatSub(r.limit, 1) ELSE 0
      a   == StateOf(S, m, r.state).action
      raise == a.kind # "None" /\ lim = 0 /\ HasLimit(a)
      S2  == SetRt(S1, m, [r EXCEPT !.limit = lim])
      S3  == IF raise
             THEN Push([S2 EXCEPT !.slot[m + 1] = NoAct], MkTr(m, "LimitReached", "drop"))
             ELSE S2
  IN [S |-> S3, lines |-> <<DecLine(m, lim, raise)>>]

\* first round of signal delivery
DoSig1(S) ==
  LET x == IF S.sig = 1 THEN -1 ELSE S.sig - 2
      frames == SelectSeq(AllFrames(S, "Signal", Drop), LAMBDA fr : fr.m # x)
  IN [S |-> [S EXCEPT !.sig = 0, !.excl = x, !.phase = "sig1", !.stack = @ \o frames],
      lines |-> <<SigLine(1, x)>>]

\* second round: the excluded machine, if the first round raised a signal
DoSig2(S) ==
  [S |-> [Push(S, MkTr(S.excl, "Signal", "drop")) EXCEPT !.sig = 0, !.phase = "sig2"],
   lines |-> <<SigLine(2, S.excl)>>]

\* return to the integrator
DoRet(S) ==
  LET sig == IF S.phase = "sig1" \/ ~("F4" \in Variant) THEN 0 ELSE S.sig
      S1  == [S EXCEPT !.sig = sig, !.phase = "idle", !.excl = -1]
  IN [S |-> S1, lines |-> <<RetLine(Actions(S), Snap(S1))>>]

Step(S, c) ==
  CASE Kind(S) = "call"  -> DoCall(S, c)
    [] Kind(S) = "event" -> DoEvent(S)
    [] Kind(S) = "tr"    -> DoTrans(S, c)
    [] Kind(S) = "after" -> DoAfter(S, c)
    [] Kind(S) = "dec"   -> DoDec(S)
    [] Kind(S) = "sig1"  -> DoSig1(S)
    [] Kind(S) = "sig2"  -> DoSig2(S)
    [] Kind(S) = "ret"   -> DoRet(S)

---------------------------------------------------------------------------
\* which inputs / draw outcomes are possible for the next step

DurAdmissible(d, dur) == IF d.any THEN IsDur(dur) ELSE \E v \in d.vals : dur = DurOf(v)

TransAdmissible(S, c) ==
  LET f == Top(S)
      r == Rt(S, f.m)
  IN IF r.state = END THEN TRUE
     ELSE LET v0 == Vec(StateOf(S, f.m, r.state), f.ev)
              v  == IF IsLazy(v0) THEN c.vec ELSE v0
          IN IF IsLazy(v0) /\ c.vec \notin EntryChoices(Len(MachOf(S, f.m).states)) THEN FALSE
             ELSE IF v = <<>> THEN TRUE
             ELSE IF c.to \notin Outcomes(v) THEN FALSE
             ELSE IF c.to < 0 THEN TRUE
             ELSE LET nst == StateOf(S, f.m, c.to)
                  IN /\ (r.state # c.to /\ HasLimit(nst.action)) => InDist(nst.action.limit, c.lim)
                     /\ (nst.ca.on /\ ~nst.ca.copy /\ ~IsNoDist(nst.ca.dist)) => InDist(nst.ca.dist, c.va)
                     /\ (nst.cb.on /\ ~nst.cb.copy /\ ~IsNoDist(nst.cb.dist)) => InDist(nst.cb.dist, c.vb)

AfterAdmissible(S, c) ==
  LET f == Top(S)
      a == StateOf(S, f.m, f.next).action
  IN AfterSched(S) =>
       CASE a.kind = "SendPadding"   -> DurAdmissible(a.timeout, c.timeout)
         [] a.kind = "BlockOutgoing" -> DurAdmissible(a.timeout, c.timeout) /\ DurAdmissible(a.duration, c.duration)
         [] a.kind = "UpdateTimer"   -> DurAdmissible(a.duration, c.duration)
         [] OTHER -> TRUE

Admissible(S, c) ==
  CASE Kind(S) = "tr"    -> TransAdmissible(S, c)
    [] Kind(S) = "after" -> AfterAdmissible(S, c)
    [] Kind(S) = "call"  -> \A i \in 1..Len(c.batch) : c.batch[i].e \in ExtKinds
    [] OTHER -> TRUE
---------------------------------------------------------------------------
\* the finite sets of draw outcomes of the next step (enumerated supports only)
TrChoices(S) ==
  LET f == Top(S)
      r == Rt(S, f.m)
  IN IF r.state = END THEN {NoChoice}
     ELSE LET v0 == Vec(StateOf(S, f.m, r.state), f.ev)
              Vs == IF IsLazy(v0) THEN EntryChoices(Len(MachOf(S, f.m).states)) ELSE {v0}
          IN UNION { IF v = <<>> THEN {[NoChoice EXCEPT !.vec = v]}
             ELSE UNION {
               IF to < 0 THEN {[NoChoice EXCEPT !.to = to, !.vec = v]}
               ELSE LET nst == StateOf(S, f.m, to)
                        Ls == IF r.state # to /\ HasLimit(nst.action) THEN nst.action.limit.vals ELSE {0}
                        As == IF nst.ca.on /\ ~nst.ca.copy /\ ~IsNoDist(nst.ca.dist) THEN nst.ca.dist.vals ELSE {0}
                        Bs == IF nst.cb.on /\ ~nst.cb.copy /\ ~IsNoDist(nst.cb.dist) THEN nst.cb.dist.vals ELSE {0}
                    IN {[NoChoice EXCEPT !.to = to, !.lim = l, !.va = a, !.vb = b, !.vec = v] :
                          l \in Ls, a \in As, b \in Bs}
               : to \in Outcomes(v)}
             : v \in Vs }

AfterChoices(S) ==
  LET f == Top(S)
      a == StateOf(S, f.m, f.next).action
      Ts == IF a.kind \in {"SendPadding", "BlockOutgoing"} THEN {DurOf(v) : v \in a.timeout.vals} ELSE {<<0, 0>>}
      Ds == IF a.kind \in {"BlockOutgoing", "UpdateTimer"} THEN {DurOf(v) : v \in a.duration.vals} ELSE {<<0, 0>>}
  IN IF AfterSched(S)
     THEN {[NoChoice EXCEPT !.timeout = t, !.duration = d] : t \in Ts, d \in Ds}
     ELSE {NoChoice}

=============================================================================
