--------------------------- MODULE FrameworkTrace ---------------------------
(***************************************************************************)
(* Trace validation: executions recorded from the real framework (ndjson,   *)
(* env TRACE) are checked                                                   *)
(*  (a) against the mechanism (Framework): every recorded line must be the  *)
(*      line the specification emits for the step, with the recorded draw   *)
(*      outcomes admissible - lock-step conformance, the verdict for C05;   *)
(*  (b) against the observer (FrameworkObs): the property invariants        *)
(*      C01-C04, C07-C09 are evaluated after every line.                    *)
(* A file holds many scenarios separated by `reset` lines; a scenario       *)
(* starts with a `new` line carrying the machines. A divergence of the      *)
(* mechanism ends (a) for that scenario only; (b) continues. Verdicts are   *)
(* collected and printed by the POSTCONDITION.                              *)
(***************************************************************************)
EXTENDS Framework, FrameworkObs, Json, IOUtils

Rec == ndJsonDeserialize(IOEnv.TRACE)

\* machines arrive as JSON: supports are arrays, make them sets
NormDist(d)   == [any |-> d.any, vals |-> SeqRange(d.vals)]
NormAction(a) == [kind |-> a.kind, bypass |-> a.bypass, replace |-> a.replace, timer |-> a.timer,
                  timeout |-> NormDist(a.timeout), duration |-> NormDist(a.duration),
                  limit |-> NormDist(a.limit)]
NormCtr(c)    == [on |-> c.on, op |-> c.op, copy |-> c.copy, dist |-> NormDist(c.dist)]
NormState(s)  == [action |-> NormAction(s.action), ca |-> NormCtr(s.ca), cb |-> NormCtr(s.cb),
                  trans |-> s.trans]
NormMach(m)   == [allowedPad |-> m.allowedPad, padFrac |-> m.padFrac,
                  allowedBlock |-> m.allowedBlock, blockFrac |-> m.blockFrac,
                  states |-> [i \in 1..Len(m.states) |-> NormState(m.states[i])]]
NormConf(C)   == [M |-> [i \in 1..Len(C.M) |-> NormMach(C.M[i])], fwPad |-> C.fwPad, fwBlk |-> C.fwBlk]

EmptyConf == [M |-> <<>>, fwPad |-> Unset, fwBlk |-> Unset]

VARIABLES l,        \* next line to consume
          S,        \* mechanism state
          o,        \* observer state
          sid,      \* id of the current scenario
          mechOK,   \* the mechanism has explained every line of this scenario so far
          verdicts, \* set of <<scenario id, name>>
          stats,    \* [scenarios, calls, lines explained by the mechanism]
          done
tvars == <<l, S, o, sid, mechOK, verdicts, stats, done>>

Line(i) == Rec[i]
HasLine(i) == i <= Len(Rec)

\* inputs and draw outcomes of the next mechanism step, read from the lines
TraceChoice ==
  LET ln == Line(l) IN
  CASE Kind(S) = "call"  ->
         IF ln.k = "call" THEN [NoChoice EXCEPT !.batch = ln.evs, !.t = ln.t] ELSE NoChoice
    [] Kind(S) = "tr"    ->
         IF ln.k # "tr" THEN NoChoice
         ELSE LET hasLim == HasLine(l + 1) /\ Line(l + 1).k = "lim"
                  ci == IF hasLim THEN l + 2 ELSE l + 1
                  hasCtr == HasLine(ci) /\ Line(ci).k = "ctr"
              IN [NoChoice EXCEPT !.to = ln.to,
                                  !.lim = IF hasLim THEN Line(l + 1).v ELSE 0,
                                  !.va = IF hasCtr THEN Line(ci).a.val ELSE 0,
                                  !.vb = IF hasCtr THEN Line(ci).b.val ELSE 0]
    [] Kind(S) = "after" ->
         IF ln.k = "as" THEN [NoChoice EXCEPT !.timeout = ln.slot.timeout, !.duration = ln.slot.duration]
         ELSE NoChoice
    [] OTHER -> NoChoice

\* the mechanism explains the next lines
MechExplains(r, c) ==
  /\ Admissible(S, c)
  /\ l + Len(r.lines) - 1 <= Len(Rec)
  /\ \A i \in 1..Len(r.lines) : Line(l + i - 1) = r.lines[i]

ObsVerdicts(ob) ==
  {n \in {"C01", "C02", "C03", "C04", "C07", "C08", "C09", "LOG"} :
     CASE n = "C01" -> ~C01_Total(ob)
       [] n = "C02" -> ~C02_PadBudget(ob)
       [] n = "C03" -> ~C03_BlockBudget(ob)
       [] n = "C04" -> ~(C04_OutputOK(ob) /\ C04_NoActionAfterEnd(ob))
       [] n = "C07" -> ~C07_Limits(ob)
       [] n = "C08" -> ~C08_Counters(ob)
       [] n = "C09" -> ~(C09_SignalOnce(ob) /\ C09_LoneSignaller(ob) /\ C09_ManySignallers(ob))
       [] n = "LOG" -> ~WellFormedLog(ob)}

RECURSIVE ObsVerdictsSeq(_, _)
ObsVerdictsSeq(ob, lines) ==
  IF lines = <<>> THEN {}
  ELSE LET nb == ObsStep(ob, Head(lines)) IN ObsVerdicts(nb) \cup ObsVerdictsSeq(nb, Tail(lines))

Note(vs) == IF vs = {} THEN TRUE ELSE PrintT("TV|VERDICT|" \o ToJson([id |-> sid, l |-> l, names |-> vs]))

TInit ==
  /\ l = 1
  /\ S = InitState(EmptyConf, <<>>)
  /\ o = ObsInit(EmptyConf, <<>>)
  /\ sid = -1
  /\ mechOK = TRUE
  /\ verdicts = {}
  /\ stats = [scenarios |-> 0, calls |-> 0, explained |-> 0, diverged |-> 0]
  /\ done = FALSE

\* scenario boundaries
Reset ==
  /\ HasLine(l) /\ Line(l).k = "reset"
  /\ sid' = Line(l).id /\ l' = l + 1
  /\ UNCHANGED <<S, o, mechOK, verdicts, stats, done>>

New ==
  /\ HasLine(l) /\ Line(l).k = "new"
  /\ LET C == NormConf(Line(l).C)
         lim == Line(l).limits
         okInit == \A i \in 1..Len(C.M) : InitLimitAdmissible(C.M[i], lim[i])
     IN /\ S' = InitState(C, lim)
        /\ o' = ObsInit(C, lim)
        /\ mechOK' = okInit
        /\ verdicts' = IF okInit THEN verdicts ELSE verdicts \cup {<<sid, "C05">>}
        /\ stats' = [stats EXCEPT !.scenarios = @ + 1]
  /\ l' = l + 1 /\ UNCHANGED <<sid, done>>

\* a panic recorded by the harness: the call never returned
Panic ==
  /\ HasLine(l) /\ Line(l).k = "panic"
  /\ verdicts' = verdicts \cup {<<sid, "PANIC">>}
  /\ mechOK' = FALSE
  /\ l' = l + 1 /\ UNCHANGED <<S, o, sid, stats, done>>

\* the harness saw a twin / clone of the instance return different lines
Nondet ==
  /\ HasLine(l) /\ Line(l).k = "nondet"
  /\ verdicts' = verdicts \cup {<<sid, "C05">>}
  /\ l' = l + 1 /\ UNCHANGED <<S, o, sid, mechOK, stats, done>>

\* mechanism and observer advance together over the lines of one step
Lockstep ==
  /\ HasLine(l) /\ Line(l).k \notin {"reset", "new", "panic", "nondet"} /\ mechOK
  /\ LET c == TraceChoice
         r == Step(S, c)
     IN IF MechExplains(r, c)
        THEN LET ob == ObsFold(o, r.lines)
                 vs == ObsVerdictsSeq(o, r.lines)
             IN /\ S' = r.S /\ o' = ob
                /\ l' = l + Len(r.lines)
                /\ mechOK' = TRUE
                /\ Note(vs)
                /\ verdicts' = verdicts \cup {<<sid, n>> : n \in vs}
                /\ stats' = [stats EXCEPT !.explained = @ + Len(r.lines),
                                          !.calls = IF Kind(S) = "call" THEN @ + 1 ELSE @]
        ELSE /\ PrintT("TV|DIVERGED|" \o ToJson([id |-> sid, l |-> l, got |-> Line(l),
                                                  want |-> IF Admissible(S, c) THEN r.lines ELSE <<"inadmissible draw">>]))
             /\ mechOK' = FALSE
             /\ verdicts' = verdicts \cup {<<sid, "C05">>}
             /\ stats' = [stats EXCEPT !.diverged = @ + 1]
             /\ UNCHANGED <<l, S, o>>
  /\ UNCHANGED <<sid, done>>

\* after a divergence only the observer continues, line by line
ObserverOnly ==
  /\ HasLine(l) /\ Line(l).k \notin {"reset", "new", "panic", "nondet"} /\ ~mechOK
  /\ LET ob == ObsStep(o, Line(l))
         vs == ObsVerdicts(ob)
     IN /\ o' = ob
        /\ Note(vs)
        /\ verdicts' = verdicts \cup {<<sid, n>> : n \in vs}
  /\ l' = l + 1
  /\ UNCHANGED <<S, sid, mechOK, stats, done>>

\* all lines consumed: print the result for the runner, once
Finish ==
  /\ ~HasLine(l) /\ ~done
  /\ PrintT("TV|DONE|" \o ToJson([lines |-> Len(Rec), stats |-> stats,
                                    verdicts |-> {[id |-> v[1], name |-> v[2]] : v \in verdicts}]))
  /\ done' = TRUE
  /\ UNCHANGED <<l, S, o, sid, mechOK, verdicts, stats>>

TNext == Reset \/ New \/ Panic \/ Nondet \/ Lockstep \/ ObserverOnly \/ Finish
TSpec == TInit /\ [][TNext]_tvars
=============================================================================
