------------------------------ MODULE Sampling ------------------------------
(***************************************************************************)
(* C06: State::sample_state (crates/maybenot/src/state.rs).                 *)
(*                                                                         *)
(* The draw is one of R equally likely values r in 0..R-1 (the code: the    *)
(* top 23 bits of one 32-bit word, R = 2^23); a transition vector is a      *)
(* sequence of <<target, weight>> with weights in units of 1/R. The code    *)
(* walks the vector adding up probabilities and returns the first target    *)
(* whose cumulative sum exceeds the draw, else nothing.                     *)
(*                                                                         *)
(* Model checking (this module, small R): for EVERY vector with 1..MaxLen   *)
(* distinct targets and weights >= 1 summing to <= R, target i is chosen    *)
(* on exactly w_i of the R draws, nothing on the remaining R - sum, the     *)
(* buckets are contiguous and in declaration order.                         *)
(* SamplingTrace validates the complete enumeration of the real function    *)
(* (all 2^23 draws per vector) against the same Pick.                       *)
(*                                                                         *)
(* Probabilities finer than the draw: a validated probability may be any    *)
(* f32 in (0, 1], also below 1/R. With weights in units of 1/(R F) the draw *)
(* r stands for r F units and target i is chosen on the draws r with        *)
(* Cum(i-1) <= r F < Cum(i): exactly ceil(Cum(i)/F) - ceil(Cum(i-1)/F) of   *)
(* them (a weight below one draw unit still owns a draw when its bucket     *)
(* contains a multiple of F, draw 0 in particular).                         *)
(***************************************************************************)
EXTENDS Integers, Sequences, FiniteSets

CONSTANTS R, MaxLen, Targets, F

RECURSIVE Cum(_, _)
Cum(v, i) == IF i = 0 THEN 0 ELSE v[i][2] + Cum(v, i - 1)

\* index of the target chosen on draw r, 0 = no transition
RECURSIVE PickFrom(_, _, _)
PickFrom(v, r, i) ==
  IF i > Len(v) THEN 0
  ELSE IF r * F < Cum(v, i) THEN i ELSE PickFrom(v, r, i + 1)
Pick(v, r) == PickFrom(v, r, 1)

Bucket(v, i) == {r \in 0..(R - 1) : Pick(v, r) = i}

Vectors ==
  {v \in UNION {[1..n -> Targets \X (1..(R * F))] : n \in 1..MaxLen} :
     /\ Cum(v, Len(v)) <= R * F
     /\ \A i, j \in 1..Len(v) : i # j => v[i][1] # v[j][1]}

VARIABLE vec
Init == vec \in Vectors \cup {<<>>}
Next == UNCHANGED vec
Spec == Init /\ [][Next]_vec

\* the share of the draw space on which target i is chosen is exactly w_i / R
CeilDiv(a, b) == (a + b - 1) \div b
Share(v, i) == CeilDiv(Cum(v, i), F) - CeilDiv(Cum(v, i - 1), F)
ExactShare == \A i \in 1..Len(vec) : Cardinality(Bucket(vec, i)) = Share(vec, i)
\* with weights in whole draw units (F = 1, or multiples of F) the share is the weight itself
WholeShare == \A i \in 1..Len(vec) :
                (\A j \in 1..i : vec[j][2] % F = 0) => Cardinality(Bucket(vec, i)) * F = vec[i][2]
\* no transition on exactly the remaining draws
Residual == Cardinality(Bucket(vec, 0)) = R - CeilDiv(Cum(vec, Len(vec)), F)
\* buckets are contiguous, in declaration order
Contiguous == \A i \in 1..Len(vec) : Bucket(vec, i) = CeilDiv(Cum(vec, i - 1), F)..(CeilDiv(Cum(vec, i), F) - 1)
\* a vector whose first weight is positive owns draw 0, however small the weight
DrawZero == Len(vec) >= 1 => Pick(vec, 0) = 1
\* probability 1 is always taken; no transitions declared, none taken
Certain == (Len(vec) = 1 /\ vec[1][2] = R * F) => Bucket(vec, 1) = 0..(R - 1)
Never == vec = <<>> => Bucket(vec, 0) = 0..(R - 1)
=============================================================================
