------------------------------ MODULE Sampling ------------------------------
(***************************************************************************)
(* C06: State::sample_state (crates/maybenot/src/state.rs).                 *)
(*                                                                         *)
(* The draw is one of R equally likely values r in 0..R-1 (the code: the    *)
(* top 23 bits of one 32-bit word, R = 2^23); a transition vector is a      *)
(* sequence of <<target, weight>> with weights in units of 1/R. The code    *)
(* walks the vector adding up probabilities and returns the first target    *)
(* whose cumulative sum exceeds the draw, else nothing.                     *)
(*                                                                         *)
(* Model checking (this module, small R): for EVERY vector with 1..MaxLen   *)
(* distinct targets and weights >= 1 summing to <= R, target i is chosen    *)
(* on exactly w_i of the R draws, nothing on the remaining R - sum, the     *)
(* buckets are contiguous and in declaration order.                         *)
(* SamplingTrace validates the complete enumeration of the real function    *)
(* (all 2^23 draws per vector) against the same Pick.                       *)
(***************************************************************************)
EXTENDS Integers, Sequences, FiniteSets

CONSTANTS R, MaxLen, Targets

RECURSIVE Cum(_, _)
Cum(v, i) == IF i = 0 THEN 0 ELSE v[i][2] + Cum(v, i - 1)

\* index of the target chosen on draw r, 0 = no transition
RECURSIVE PickFrom(_, _, _)
PickFrom(v, r, i) ==
  IF i > Len(v) THEN 0
  ELSE IF r < Cum(v, i) THEN i ELSE PickFrom(v, r, i + 1)
Pick(v, r) == PickFrom(v, r, 1)

Bucket(v, i) == {r \in 0..(R - 1) : Pick(v, r) = i}

Vectors ==
  {v \in UNION {[1..n -> Targets \X (1..R)] : n \in 1..MaxLen} :
     /\ Cum(v, Len(v)) <= R
     /\ \A i, j \in 1..Len(v) : i # j => v[i][1] # v[j][1]}

VARIABLE vec
Init == vec \in Vectors \cup {<<>>}
Next == UNCHANGED vec
Spec == Init /\ [][Next]_vec

\* the share of the draw space on which target i is chosen is exactly w_i / R
ExactShare == \A i \in 1..Len(vec) : Cardinality(Bucket(vec, i)) = vec[i][2]
\* no transition on exactly the remaining 1 - sum
Residual == Cardinality(Bucket(vec, 0)) = R - Cum(vec, Len(vec))
\* buckets are contiguous, in declaration order
Contiguous == \A i \in 1..Len(vec) : Bucket(vec, i) = Cum(vec, i - 1)..(Cum(vec, i) - 1)
\* probability 1 is always taken; no transitions declared, none taken
Certain == (Len(vec) = 1 /\ vec[1][2] = R) => Bucket(vec, 1) = 0..(R - 1)
Never == vec = <<>> => Bucket(vec, 0) = 0..(R - 1)
=============================================================================
