------------------------------- MODULE SimObs -------------------------------
(***************************************************************************)
(* Observer of the simulator (crates/maybenot-simulator): a state machine   *)
(* over what an integrator of the simulator can see - the events it         *)
(* processes in order (kind, side, machine, time, padding and the bypass /  *)
(* replace flags), the actions the frameworks returned, why the run ended,  *)
(* the returned trace - carrying the history variables of C14-C19:          *)
(*   pend    the action timer the framework last set per machine (C17)      *)
(*   timer   the internal timer per machine by the UpdateTimer rule (C18)   *)
(*   blk     the current blocking per side: since, until, and whether EVERY *)
(*           action that started or updated it allowed bypass (C16)         *)
(*   flight  tunnel-sent packets not yet matched by a tunnel-recv (C15)     *)
(* Times are integer micro-seconds of trace time. Sides: 1 client, 2 server.*)
(* `viol` collects <<clause, signature>>; the clause decides the property.  *)
(***************************************************************************)
EXTENDS Integers, Sequences, FiniteSets

Side(c) == IF c THEN 1 ELSE 2
Other(s) == 3 - s

NoPend  == [on |-> FALSE, kind |-> "-", due |-> 0, bypass |-> FALSE, replace |-> FALSE, duration |-> 0]
NoTimer == [on |-> FALSE, due |-> 0, zero |-> FALSE]
NoBegin == [n |-> 0, t |-> 0, zero |-> FALSE]
NoBlk   == [active |-> FALSE, since |-> 0, until |-> 0, allBypass |-> FALSE, lastBypass |-> FALSE,
            zero |-> FALSE, begun |-> FALSE]
NoAwait == [n |-> 0, t |-> 0]

SimObsInit(cf) ==
  [cf |-> cf, now |-> cf.start, started |-> FALSE,
   pend  |-> <<[i \in 1..cf.nc |-> NoPend],  [i \in 1..cf.ns |-> NoPend]>>,
   timer |-> <<[i \in 1..cf.nc |-> NoTimer], [i \in 1..cf.ns |-> NoTimer]>>,
   begin |-> <<[i \in 1..cf.nc |-> NoBegin], [i \in 1..cf.ns |-> NoBegin]>>,
   \* reports owed after a timer fired: PaddingSent, BlockingBegin, TimerEnd
   awPad |-> <<[i \in 1..cf.nc |-> NoAwait], [i \in 1..cf.ns |-> NoAwait]>>,
   awBlk |-> <<[i \in 1..cf.nc |-> NoAwait], [i \in 1..cf.ns |-> NoAwait]>>,
   awEnd |-> <<[i \in 1..cf.nc |-> NoAwait], [i \in 1..cf.ns |-> NoAwait]>>,
   blk   |-> <<NoBlk, NoBlk>>,
   normalSent |-> <<0, 0>>,
   flight |-> <<>>,
   evs |-> <<>>,          \* the processed events, projected as in the returned trace
   full |-> <<>>,         \* the returned (unfiltered) trace
   exit |-> "-",
   viol |-> {}]

SFlag(o, cond, clause, sig) == IF cond THEN o ELSE [o EXCEPT !.viol = @ \cup {<<clause, sig>>}]

NM(o, s) == IF s = 1 THEN o.cf.nc ELSE o.cf.ns
ValidM(o, s, m) == m >= 0 /\ m < NM(o, s)

---------------------------------------------------------------------------
\* an action returned by a framework at time t on side s
OnAct(o, ln) ==
  LET s == Side(ln.c)  a == ln.a  m == a.m  t == ln.t IN
  IF ~ValidM(o, s, m) THEN SFlag(o, FALSE, "ActionForUnknownMachine", "") ELSE
  CASE a.kind = "Cancel" ->
         LET o1 == IF a.timer \in {"Action", "All"} THEN [o EXCEPT !.pend[s][m + 1] = NoPend] ELSE o
         IN IF a.timer \in {"Internal", "All"} THEN [o1 EXCEPT !.timer[s][m + 1] = NoTimer] ELSE o1
    [] a.kind \in {"SendPadding", "BlockOutgoing"} ->
         [o EXCEPT !.pend[s][m + 1] = [on |-> TRUE, kind |-> a.kind, due |-> t + a.timeout,
                                       bypass |-> a.bypass, replace |-> a.replace,
                                       duration |-> a.duration]]
    [] a.kind = "UpdateTimer" ->
         LET cur == o.timer[s][m + 1]
             sets == a.replace \/ ~cur.on \/ t + a.duration > cur.due
         IN IF sets
            THEN [o EXCEPT !.timer[s][m + 1] = [on |-> TRUE, due |-> t + a.duration,
                                                zero |-> a.duration = 0 /\ ~a.replace /\ ~cur.on],
                           !.begin[s][m + 1] = [n |-> (IF @.t = t THEN @.n ELSE 0) + 1, t |-> t,
                                                zero |-> (IF @.t = t /\ @.n > 0 THEN @.zero ELSE FALSE)
                                                         \/ (a.duration = 0 /\ ~a.replace /\ ~cur.on)]]
            ELSE o
    [] OTHER -> o

\* nothing that was due strictly before t may still be pending when time reaches t
Missed(o, t) ==
  LET sides == {1, 2}
      o1 == SFlag(o, \A s \in sides : \A i \in 1..NM(o, s) : o.pend[s][i].on => o.pend[s][i].due >= t,
                  "ActionMissed", "")
      zt == \E s \in sides : \E i \in 1..NM(o, s) : o.timer[s][i].on /\ o.timer[s][i].due < t /\ o.timer[s][i].zero
      o2 == SFlag(o1, \A s \in sides : \A i \in 1..NM(o, s) : o.timer[s][i].on => o.timer[s][i].due >= t,
                  "TimerMissed", IF zt THEN "zero-duration-no-timer" ELSE "")
      zb == \E s \in sides : \E i \in 1..NM(o, s) : o.begin[s][i].n > 0 /\ o.begin[s][i].t < t /\ o.begin[s][i].zero
      o3 == SFlag(o2, \A s \in sides : \A i \in 1..NM(o, s) : o.begin[s][i].n > 0 => o.begin[s][i].t >= t,
                  "TimerBeginMissing", IF zb THEN "zero-duration-no-timer" ELSE "")
      zk == \E s \in sides : o.blk[s].active /\ o.blk[s].until < t /\ o.blk[s].zero
      o4 == SFlag(o3, \A s \in sides : o.blk[s].active => o.blk[s].until >= t,
                  "BlockingEndMissed", IF zk THEN "zero-duration" ELSE "")
      owed(aw) == \E s \in sides : \E i \in 1..NM(o, s) : aw[s][i].n > 0 /\ aw[s][i].t < t
      o5 == SFlag(o4, ~owed(o.awPad) /\ ~owed(o.awBlk), "ReportMissing", "")
      o6 == SFlag(o5, ~owed(o.awEnd), "TimerEndMissing", "")
      \* what was missed is reported once and then forgotten
      keepP(x) == IF x.on /\ x.due < t THEN NoPend ELSE x
      keepT(x) == IF x.on /\ x.due < t THEN NoTimer ELSE x
      keepB(x) == IF x.n > 0 /\ x.t < t THEN NoBegin ELSE x
      keepA(x) == IF x.n > 0 /\ x.t < t THEN NoAwait ELSE x
      side(f, K(_), s) == [i \in 1..NM(o, s) |-> K(f[s][i])]
  IN [o6 EXCEPT !.pend  = <<side(o.pend, keepP, 1),  side(o.pend, keepP, 2)>>,
                !.timer = <<side(o.timer, keepT, 1), side(o.timer, keepT, 2)>>,
                !.begin = <<side(o.begin, keepB, 1), side(o.begin, keepB, 2)>>,
                !.awPad = <<side(o.awPad, keepA, 1), side(o.awPad, keepA, 2)>>,
                !.awBlk = <<side(o.awBlk, keepA, 1), side(o.awBlk, keepA, 2)>>,
                !.awEnd = <<side(o.awEnd, keepA, 1), side(o.awEnd, keepA, 2)>>,
                !.blk = [s \in {1, 2} |-> IF o.blk[s].active /\ o.blk[s].until < t THEN NoBlk ELSE o.blk[s]]]

\* time reaches t (an event is processed or a timer fires)
Advance(o, t) ==
  LET o1 == SFlag(o, t >= o.now, "TimeBackwards", "")
      o2 == IF t > o.now THEN Missed(o1, t) ELSE o1
  IN [o2 EXCEPT !.now = IF t > @ THEN t ELSE @]

Bump(aw, t) == [n |-> (IF aw.t = t THEN aw.n ELSE 0) + 1, t |-> t]

\* an action timer or internal timer fired (hook record)
OnFired(o0, ln) ==
  LET s == Side(ln.c)  m == ln.m  t == ln.t
      \* a timer that is due later than the current instant may fire before the
      \* simulator moves time there (pick_next recursion): time is not advanced here
      o == SFlag(o0, t >= o0.now, "TimeBackwards", "")
  IN IF ~ValidM(o, s, m) THEN SFlag(o, FALSE, "EventForUnknownMachine", "") ELSE
  IF ln.w = "timer"
  THEN LET tm == o.timer[s][m + 1]
           ok == tm.on /\ tm.due = t
       IN [SFlag(o, ok, "TimerFiredWithoutCause", "")
             EXCEPT !.timer[s][m + 1] = NoTimer, !.awEnd[s][m + 1] = Bump(@, t)]
  ELSE LET pa == o.pend[s][m + 1]
           ok == pa.on /\ pa.due = t
           o1 == SFlag(o, ok, "FiredWithoutCause", "")
       IN IF ~ok THEN o1
          ELSE IF pa.kind = "SendPadding"
          THEN [o1 EXCEPT !.pend[s][m + 1] = NoPend, !.awPad[s][m + 1] = Bump(@, t)]
          ELSE LET b0  == o.blk[s]
                   \* a period that ran out before this action fires has ended (its
                   \* BlockingEnd is owed): the action starts a new period
                   over == b0.active /\ b0.until <= t
                   b   == IF over THEN NoBlk ELSE b0
                   end == t + pa.duration
                   nb  == IF ~b.active
                          THEN [active |-> TRUE, since |-> t, until |-> end, allBypass |-> pa.bypass,
                                lastBypass |-> pa.bypass, zero |-> pa.duration = 0, begun |-> FALSE]
                          ELSE IF pa.replace \/ end > b.until
                          THEN [b EXCEPT !.until = end, !.allBypass = @ /\ pa.bypass,
                                         !.lastBypass = pa.bypass, !.zero = pa.duration = 0]
                          ELSE b
               IN [SFlag(o1, ~over, "BlockingEndMissed", IF b0.zero THEN "zero-duration" ELSE "")
                     EXCEPT !.pend[s][m + 1] = NoPend, !.awBlk[s][m + 1] = Bump(@, t), !.blk[s] = nb]

\* earliest-sent packet in flight towards side s of the given kind that can have arrived by t
MatchIdx(o, s, p, t) ==
  LET C == {i \in 1..Len(o.flight) : o.flight[i].to = s /\ o.flight[i].p = p /\ o.flight[i].t + o.cf.delay <= t}
  IN IF C = {} THEN 0 ELSE CHOOSE i \in C : \A j \in C : o.flight[i].t <= o.flight[j].t /\ (o.flight[i].t = o.flight[j].t => i <= j)
RemoveAt(q, i) == SubSeq(q, 1, i - 1) \o SubSeq(q, i + 1, Len(q))

OnEv(o0, ln) ==
  LET s  == Side(ln.c)  m == ln.m  t == ln.t
      o  == [Advance(o0, t) EXCEPT
                       !.evs = Append(@, [c |-> ln.c, e |-> ln.e, m |-> ln.m, t |-> ln.t, p |-> ln.p])]
      needsM == ln.e \in {"PaddingSent", "BlockingBegin", "TimerBegin", "TimerEnd"}
  IN IF needsM /\ ~ValidM(o, s, m) THEN SFlag(o, FALSE, "EventForUnknownMachine", "") ELSE
  CASE ln.e = "PaddingSent" ->
         LET aw == o.awPad[s][m + 1]
             ok == aw.n > 0 /\ aw.t = t
         IN [SFlag(o, ok, "PaddingSentCause", "") EXCEPT !.awPad[s][m + 1].n = IF ok THEN @ - 1 ELSE @]
    [] ln.e = "BlockingBegin" ->
         LET aw == o.awBlk[s][m + 1]
             ok == aw.n > 0 /\ aw.t = t
         IN [SFlag(o, ok, "BlockingBeginCause", "")
               EXCEPT !.awBlk[s][m + 1].n = IF ok THEN @ - 1 ELSE @,
                      !.blk[s].begun = IF o.blk[s].active THEN TRUE ELSE @]
    [] ln.e = "BlockingEnd" ->
         LET b == o.blk[s]
             ok == b.active /\ b.until = t
             o3 == SFlag(o, ok, "BlockingEndUnexpected", IF ~b.active THEN "no-blocking-by-the-rule" ELSE "")
             o4 == SFlag(o3, ok => b.begun, "BlockingEndBeforeBegin", IF b.zero THEN "zero-duration" ELSE "")
         IN [o4 EXCEPT !.blk[s] = IF b.active THEN NoBlk ELSE @]
    [] ln.e = "TunnelSent" ->
         LET b == o.blk[s]
             inside == b.active /\ b.since < t /\ t < b.until
             o3 == SFlag(o, inside => (b.allBypass /\ ln.bp), "Leak",
                         IF inside /\ ln.bp /\ ~b.allBypass /\ b.lastBypass THEN "bypass-flag-overwritten" ELSE "")
             o4 == IF ln.p THEN o3 ELSE [o3 EXCEPT !.normalSent[s] = @ + 1]
         IN [o4 EXCEPT !.flight = Append(@, [to |-> Other(s), p |-> ln.p, t |-> t])]
    [] ln.e = "TunnelRecv" ->
         LET i == MatchIdx(o, s, ln.p, t)
         IN IF i = 0 THEN SFlag(o, FALSE, "RecvWithoutSend", "")
            ELSE [o EXCEPT !.flight = RemoveAt(@, i)]
    [] ln.e = "TimerBegin" ->
         LET bg == o.begin[s][m + 1]
             ok == bg.n > 0 /\ bg.t = t
         IN [SFlag(o, ok, "TimerBeginUnexpected", "") EXCEPT !.begin[s][m + 1].n = IF ok THEN @ - 1 ELSE @]
    [] ln.e = "TimerEnd" ->
         LET aw == o.awEnd[s][m + 1]
             ok == aw.n > 0 /\ aw.t = t
         IN [SFlag(o, ok, "TimerEndUnexpected", "") EXCEPT !.awEnd[s][m + 1].n = IF ok THEN @ - 1 ELSE @]
    [] OTHER -> o

Share(o, s) == Len(SelectSeq(o.cf.trace, LAMBDA x : x.s = (s = 1)))

OnExit(o, ln) ==
  LET o1 == SFlag(o, \A s \in {1, 2} : o.normalSent[s] <= Share(o, s), "NormalCreated", "")
      o2 == SFlag(o1, (ln.reason = "all_normal_processed") => \A s \in {1, 2} : o.normalSent[s] = Share(o, s),
                  "NormalCountExact", "")
      o3 == SFlag(o2, o.cf.max_it > 0 => ln.it <= o.cf.max_it, "Unbounded", "")
  IN [o3 EXCEPT !.exit = IF @ = "-" THEN ln.reason ELSE @]

Sorted(evs) == \A i \in 1..(Len(evs) - 1) : evs[i].t <= evs[i + 1].t
IsTunnel(e) == e.e \in {"TunnelSent", "TunnelRecv"}

\* bags as counting functions over the distinct elements
Count(x, q) == Cardinality({i \in 1..Len(q) : q[i] = x})
SameBag(a, b) == Len(a) = Len(b) /\ \A i \in 1..Len(a) : Count(a[i], a) = Count(a[i], b)

\* C14: what the returned trace must contain when there are no machines
Expected(cf) ==
  LET n == Len(cf.trace)
      at(i) == cf.trace[i]
  IN [i \in 1..(2 * n) |->
        LET k == (i + 1) \div 2  first == i % 2 = 1 IN
        IF at(k).s
        THEN (IF first THEN [c |-> TRUE,  e |-> "TunnelSent", t |-> at(k).t]
                       ELSE [c |-> FALSE, e |-> "TunnelRecv", t |-> at(k).t + cf.delay])
        ELSE (IF first THEN [c |-> TRUE,  e |-> "TunnelRecv", t |-> at(k).t]
                       ELSE [c |-> FALSE, e |-> "TunnelSent", t |-> at(k).t - cf.delay])]
Tunnels(evs) == LET q == SelectSeq(evs, IsTunnel) IN [i \in 1..Len(q) |-> [c |-> q[i].c, e |-> q[i].e, t |-> q[i].t]]
Reproduces(cf, evs) ==
  /\ SameBag(Tunnels(evs), Expected(cf))
  /\ \A i \in 1..Len(evs) : ~evs[i].p /\ evs[i].e \in {"TunnelSent", "TunnelRecv", "NormalSent", "NormalRecv"}
  /\ Sorted(evs)
NoMachines(cf) == cf.nc = 0 /\ cf.ns = 0 /\ cf.pps = -1

OnOut(o, ln) ==
  LET o1 == SFlag(o, Sorted(ln.evs), "NotSorted", "")
      \* the returned trace is the processed events (binds the hook stream to the output)
      o2 == SFlag(o1, ln.evs = o.evs, "OutputIsNotTheProcessedEvents", "")
      o3 == SFlag(o2, NoMachines(o.cf) => Reproduces(o.cf, ln.evs), "TraceNotReproduced", "")
  IN [o3 EXCEPT !.full = ln.evs]

Keep(oc, ona, e) == (~oc \/ e.c) /\ (~ona \/ IsTunnel(e))
OnFiltered(o, ln) ==
  LET o1 == SFlag(o, ln.evs = SelectSeq(o.full, LAMBDA e : Keep(ln.oc, ln.ona, e)), "NotProjection", "")
      \* C14 for every combination of output filters: without machines the filtered
      \* run shows exactly the filtered share of the input trace
      want == SelectSeq(Expected(o.cf), LAMBDA e : ~ln.oc \/ e.c)
  IN SFlag(o1, NoMachines(o.cf) =>
                 /\ SameBag(Tunnels(ln.evs), want) /\ Sorted(ln.evs)
                 /\ \A i \in 1..Len(ln.evs) : ~ln.evs[i].p /\ (ln.oc => ln.evs[i].c) /\ (ln.ona => IsTunnel(ln.evs[i])),
           "TraceNotReproduced", "filtered")

OnSimple(o, ln) ==
  SFlag(o, IF ln.ona
           THEN /\ SameBag(Tunnels(ln.evs), Expected(o.cf)) /\ Sorted(ln.evs)
                /\ \A i \in 1..Len(ln.evs) : IsTunnel(ln.evs[i]) /\ ~ln.evs[i].p
           ELSE Reproduces(o.cf, ln.evs),
        "TraceNotReproduced", "sim()")

\* C14 on bursts far beyond any small count: the input trace and the returned traces are run-length
\* encoded (a run is a distinct event with its multiplicity n, in order of first appearance; whether the trace is sorted by time is computed by the harness over the whole trace); the bag comparison adds up multiplicities
Mult(x) == IF "n" \in DOMAIN x THEN x.n ELSE 1
RunKey(r) == [c |-> r.c, e |-> r.e, t |-> r.t]
ExpectedRuns(cf) ==
  LET E == Expected(cf) IN
  [i \in 1..Len(E) |-> [c |-> E[i].c, e |-> E[i].e, t |-> E[i].t, n |-> Mult(cf.trace[(i + 1) \div 2])]]
RECURSIVE RunSum(_, _, _)
RunSum(q, k, i) == IF i = 0 THEN 0 ELSE (IF RunKey(q[i]) = k THEN Mult(q[i]) ELSE 0) + RunSum(q, k, i - 1)
RECURSIVE RunTotal(_, _)
RunTotal(q, i) == IF i = 0 THEN 0 ELSE Mult(q[i]) + RunTotal(q, i - 1)
SameRuns(a, b) ==
  \A k \in {RunKey(a[i]) : i \in 1..Len(a)} \cup {RunKey(b[i]) : i \in 1..Len(b)} :
    RunSum(a, k, Len(a)) = RunSum(b, k, Len(b))
OnOutRle(o, ln) ==
  LET want == SelectSeq(ExpectedRuns(o.cf), LAMBDA e : ~ln.oc \/ e.c)
      ok == /\ SameRuns(SelectSeq(ln.runs, IsTunnel), want)
            /\ ln.sorted
            /\ \A i \in 1..Len(ln.runs) :
                  /\ ~ln.runs[i].p /\ ln.runs[i].n >= 1
                  /\ ln.runs[i].e \in {"TunnelSent", "TunnelRecv", "NormalSent", "NormalRecv"}
                  /\ (ln.oc => ln.runs[i].c) /\ (ln.ona => IsTunnel(ln.runs[i]))
            /\ ln.total = RunTotal(ln.runs, Len(ln.runs))
  IN SFlag(o, NoMachines(o.cf) => ok, "TraceNotReproduced", "burst")

OnBounded(o, ln) ==
  LET o1 == SFlag(o, ln.mtl > 0 => ln.len <= ln.mtl, "Unbounded", "trace-length")
      o2 == SFlag(o1, ln.max_it > 0 => ln.it <= ln.max_it, "Unbounded", "iterations")
  IN SFlag(o2, ln.sorted, "NotSorted", "bounded")

SimObsStep0(o, ln) ==
  CASE ln.k = "act"      -> OnAct(o, ln)
    [] ln.k = "ev"       -> OnEv(o, ln)
    [] ln.k = "fired"    -> OnFired(o, ln)
    [] ln.k = "exit"     -> OnExit(o, ln)
    [] ln.k = "out"      -> OnOut(o, ln)
    [] ln.k = "rerun"    -> SFlag(o, ln.same, "NotReproducible", "")
    [] ln.k = "filtered" -> OnFiltered(o, ln)
    [] ln.k = "simple"   -> OnSimple(o, ln)
    [] ln.k = "outrle"   -> OnOutRle(o, ln)
    [] ln.k = "bounded"  -> OnBounded(o, ln)
    [] ln.k = "panic"    -> SFlag(o, FALSE, "Panic", "")
    [] OTHER -> o                       \* pick / blk / repl / recv / agg: mechanism diagnostics

\* large-time family (times written in minutes): a record carrying a time off the grid of the
\* inputs. The clause names what kind of time it was.
OffGridClause(ln) ==
  IF ln.k = "ev"
  THEN (CASE ln.e \in {"TunnelRecv", "NormalRecv", "PaddingRecv", "TunnelSent", "NormalSent"} -> "OffGridPacket"
          [] ln.e = "BlockingEnd" -> "OffGridBlocking"
          [] ln.e \in {"PaddingSent", "BlockingBegin"} -> "OffGridAction"
          [] OTHER -> "OffGridTimer")
  ELSE IF ln.k \in {"blk", "agg", "aggpop"} THEN "OffGridBlocking"
  ELSE IF ln.k = "recv" THEN "OffGridPacket"
  ELSE IF ln.k = "act" THEN "OffGridAction"
  ELSE "OffGridOther"

SimObsStep(o, ln) ==
  IF "og" \in DOMAIN ln /\ ln.og THEN SimObsStep0(SFlag(o, FALSE, OffGridClause(ln), ""), ln) ELSE SimObsStep0(o, ln)

\* clause -> property
ClauseProperty(c) ==
  CASE c \in {"TraceNotReproduced"} -> "C14"
    [] c \in {"RecvWithoutSend", "NormalCreated", "NormalCountExact", "NotSorted", "OffGridPacket"} -> "C15"
    [] c \in {"Leak", "BlockingEndUnexpected", "BlockingEndMissed", "BlockingEndBeforeBegin", "OffGridBlocking"} -> "C16"
    [] c \in {"PaddingSentCause", "BlockingBeginCause", "ActionMissed", "FiredWithoutCause", "ReportMissing", "OffGridAction"} -> "C17"
    [] c \in {"TimerBeginUnexpected", "TimerBeginMissing", "TimerEndUnexpected", "TimerMissed",
              "TimerFiredWithoutCause", "TimerEndMissing", "OffGridTimer"} -> "C18"
    [] c \in {"TimeBackwards", "NotReproducible", "NotProjection", "Unbounded", "Panic", "OffGridOther"} -> "C19"
    [] OTHER -> "LOG"
=============================================================================
